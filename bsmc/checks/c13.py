"""C13 - equality and hashing form a consistent contract across classes and routes (product explorer over pairs / triples).

state  = an ordered pair (or triple) of objects, each = (class, content, construction route, pos)
events = a == b, b == a, a != b, hash agreement, set / dict membership
oracle = equality of the two bit strings.
"""
from __future__ import annotations

import itertools

from .. import core, families, routes
from ..util import CLASSES, STREAMS, obs

PROPERTY = 'C13'
VACUITY = dict(need_ok=['eq', 'ne', 'hash', 'set', 'dict', 'promotable', 'nonpromotable', 'transitive', 'unhashable'], min_outcomes=4)
HASHABLE = ('Bits', 'ConstBitStream')

LONG_LENGTHS = (1999, 2000, 2001, 2047, 3599, 3600, 3601, 4000)
LONG_LENGTHS_T = tuple(range(1992, 2010)) + (2047, 2048, 2049) + tuple(range(3592, 3610)) + (4000, 8191, 8192, 8193, 16385)


def describe(tier):
    q = tier == 'quick'
    return dict(bounds=dict(small_contents='all contents of length <= %d' % (4 if q else 7), classes=list(CLASSES),
                            routes=list(routes.ROUTES) if not q else 'every route of bsmc.routes (memory and file-backed)',
                            long_lengths=list(LONG_LENGTHS if q else LONG_LENGTHS_T), long_variants='base pattern and variants differing in bit 0, 799, 800, L/2, L-801, L-800, L-1 '
                                                                            'and in length by +-1, built through %d routes' % (4 if q else 8),
                            triples='all triples over contents of length <= 2 x class triples with promotable middles'),
                rule='every ordered pair of objects in the bound is compared once in both directions; non-trivial = pair of *different objects* '
                     '(not identical construction), counted per event',
                assumptions=['equality of the bit strings is the definition', 'hashes are compared within one process (PYTHONHASHSEED fixed)'])


def shards(tier, seed):
    q = tier == 'quick'
    out = []
    conts = list(families.all_bits(4 if q else 7))
    for part in families.chunk(conts, len(conts)):
        out.append(dict(kind='small', left=part, n=4 if q else 7))
    for L in (LONG_LENGTHS if q else LONG_LENGTHS_T):
        out.append(dict(kind='long', L=L, seed=seed))
    out.append(dict(kind='other'))
    out.append(dict(kind='triples'))
    return out


def mkobjs(bs, ctx, bits, rts, poss=(0,)):
    """All (label, object) for one content."""
    out = []
    for cls in CLASSES:
        for r in rts:
            try:
                o = routes.build(bs, r, cls, bits, ctx)
            except Exception as e:  # noqa: BLE001 - construction failures are C08/C15 business
                continue
            if o is None:
                continue
            for p in poss:
                if cls in STREAMS and p:
                    if p > len(bits):
                        continue
                    o2 = routes.build(bs, r, cls, bits, ctx)
                    o2.pos = p
                    out.append(((cls, r, p), o2))
                elif not p:
                    out.append(((cls, r, 0), o))
    return out


def src_of(label, bits):
    cls, r, p = label
    s = routes.source(r, cls, bits)
    if p:
        return f"(lambda o: (setattr(o, 'pos', {p}), o)[1])({s})"
    return s


def compare(acc, bits_a, la, a, bits_b, lb, b):
    exp = bits_a == bits_b
    nt = int(a is not b)
    r1 = obs(lambda: a == b)
    r2 = obs(lambda: a != b)
    acc.step('eq', 1, nontrivial=nt, ok=1)
    acc.step('ne', 1, nontrivial=nt, ok=1)
    if r1 != ('ok', exp) or r2 != ('ok', not exp):
        acc.violation('eq', 'value', dict(a=list(la), b=list(lb), bits_a=bits_a if len(bits_a) < 70 else f'{len(bits_a)} bits',
                                          bits_b=bits_b if len(bits_b) < 70 else f'{len(bits_b)} bits',
                                          group='file' if 'file' in la[1] + lb[1] else ''),
                      '\n'.join([routes.SNIPPET_PRELUDE, f"a = {src_of(la, bits_a)}", f"b = {src_of(lb, bits_b)}",
                                 f"assert (a == b) is {exp} and (a != b) is {not exp}, (a == b, a != b)"]), exp, (r1, r2))
    if exp and la[0] in HASHABLE and lb[0] in HASHABLE:
        h = obs(lambda: hash(a) == hash(b))
        inset = obs(lambda: b in {a})
        d = obs(lambda: {a: 1}.get(b))
        acc.step('hash', 1, nontrivial=nt, ok=1)
        acc.step('set', 1, nontrivial=nt, ok=1)
        acc.step('dict', 1, nontrivial=nt, ok=1)
        if h != ('ok', True) or inset != ('ok', True) or d != ('ok', 1):
            acc.violation('hash', 'value', dict(a=list(la), b=list(lb), bits=bits_a if len(bits_a) < 70 else f'{len(bits_a)} bits',
                                                group='file' if 'file' in la[1] + lb[1] else ''),
                          '\n'.join([routes.SNIPPET_PRELUDE, f"a = {src_of(la, bits_a)}", f"b = {src_of(lb, bits_b)}",
                                     "assert a == b and hash(a) == hash(b) and b in {a} and {a: 1}.get(b) == 1"]), True, (h, inset, d))
    acc.outcome(('eq', exp, la[0] in HASHABLE, lb[0] in HASHABLE))


def run_shard(shard, acc):
    bs = core.import_bitstring()
    ctx = routes.Ctx()
    try:
        with core.watchdog(1500):
            k = shard['kind']
            if k == 'small':
                run_small(bs, acc, ctx, shard)
            elif k == 'long':
                run_long(bs, acc, ctx, shard)
            elif k == 'other':
                run_other(bs, acc, ctx)
            else:
                run_triples(bs, acc, ctx)
    finally:
        ctx.close()


def run_small(bs, acc, ctx, shard):
    conts = list(families.all_bits(shard['n']))
    rts = list(routes.ROUTES)
    objs = {c: mkobjs(bs, ctx, c, rts, poss=(0, len(c))) for c in conts}
    for c in conts:
        acc.state(('content', c, len(objs[c])))
    for ca in shard['left']:
        for cb in conts:
            # equal contents: every pair of objects; unequal contents: every object against a bin= representative of each class
            if ca == cb:
                for (la, a), (lb, b) in itertools.product(objs[ca], objs[cb]):
                    compare(acc, ca, la, a, cb, lb, b)
            else:
                reps = [x for x in objs[cb] if x[0][1] == 'bin']
                for (la, a) in objs[ca]:
                    for (lb, b) in reps:
                        compare(acc, ca, la, a, cb, lb, b)
                        compare(acc, cb, lb, b, ca, la, a)
    acc.sample(dict(a="ConstBitStream(bytes=..., offset=3, length=3) at pos 3", b="BitArray(filename=f, length=3)", event="a == b, b == a, a != b"))


def variants(base):
    L = len(base)
    flip = lambda s, i: s[:i] + ('1' if s[i] == '0' else '0') + s[i + 1:]
    out = [('base', base)]
    for i in sorted({0, 799, 800, L // 2, L - 801, L - 800, L - 1}):
        out.append((f'flip{i}', flip(base, i)))
    out.append(('shorter', base[:-1]))
    out.append(('longer', base + '0'))
    return out


def run_long(bs, acc, ctx, shard):
    L = shard['L']
    q = acc.tier == 'quick'
    rts = ['bin', 'bytes_off3', 'file_len', 'stepslice'] + ([] if q else ['str', 'bitarray', 'file_off3_len', 'slice', 'from_mutated'])
    for base in families.edge(L, shard['seed'], full=False)[2:5 if q else 7]:
        vs = variants(base)
        built = {}
        for tag, c in vs:
            built[tag] = mkobjs(bs, ctx, c, rts if tag == 'base' else rts[:2], poss=(0, 801))
            acc.state(('long', L, tag, base[:16]))
        for (ta, ca), (tb, cb) in itertools.product(vs, vs):
            if ta != 'base' and tb != 'base':
                continue
            for (la, a), (lb, b) in itertools.product(built[ta], built[tb]):
                compare(acc, ca, la, a, cb, lb, b)
    acc.sample(dict(L=L, event="hash(Bits(filename=f, length=L)) == hash(ConstBitStream(bin=...)[::2]) for equal 2001-bit contents"))


PROMOTABLE = [
    ('str', lambda bits: ('0b' + bits) if bits else '', True),
    ('bytes', lambda bits: routes.to_bytes(bits), lambda bits: len(bits) % 8 == 0),
    ('bytearray', lambda bits: bytearray(routes.to_bytes(bits)), lambda bits: len(bits) % 8 == 0),
    ('memoryview', lambda bits: memoryview(routes.to_bytes(bits)), lambda bits: len(bits) % 8 == 0),
    ('mv_strided', lambda bits: memoryview(routes.interleave(routes.to_bytes(bits)))[::2], lambda bits: len(bits) % 8 == 0),
    ('mv_reversed', lambda bits: memoryview(routes.to_bytes(bits)[::-1])[::-1], lambda bits: len(bits) % 8 == 0),
    ('mv_cast_H', lambda bits: memoryview(routes.to_bytes(bits)).cast('H'), lambda bits: len(bits) % 16 == 0 and len(bits) > 0),
    ('mv_2d', lambda bits: memoryview(routes.to_bytes(bits)).cast('B', (2, len(bits) // 16)), lambda bits: len(bits) % 16 == 0 and len(bits) > 0),
    ('bytesio', lambda bits: __import__('io').BytesIO(routes.to_bytes(bits)), lambda bits: len(bits) % 8 == 0),
    ('bytesio_cursor', lambda bits: (lambda f: (f.read(), f)[1])(__import__('io').BytesIO(routes.to_bytes(bits))), lambda bits: len(bits) % 8 == 0),
    ('list', lambda bits: [c == '1' for c in bits], True),
    ('tuple', lambda bits: tuple(int(c) for c in bits), True),
    ('bitarray', lambda bits: __import__('bitarray').bitarray(bits), True),
]


class Plain:
    pass


def run_other(bs, acc, ctx):
    conts = list(families.all_bits(3)) + ['10110010', '0000000011111111', '101100101', '10110010000000011111111100110101']
    # whole-byte forms of the short contents (zero padded): equal bytes but different length must compare unequal
    conts += sorted({c + '0' * ((-len(c)) % 8) for c in conts if len(c) % 8})
    nonprom = [('int', 3), ('zero', 0), ('negint', -1), ('negint5', -5), ('bigint', 2 ** 70), ('negbig', -2 ** 70), ('bool', True), ('false', False),
               ('float', 1.5), ('negfloat', -1.5), ('nan', float('nan')), ('inf', float('inf')), ('None', None), ('object', object()),
               ('complex', 1j), ('function', run_other), ('plain', Plain()), ('type', int), ('ellipsis', Ellipsis), ('notimpl', NotImplemented)]
    for c in conts:
        for cls in CLASSES:
            a = getattr(bs, cls)(bin=c)
            acc.state(('other', cls, c))
            for name, mk, cond in PROMOTABLE:
                for c2 in conts:
                    if cond is not True and not cond(c2):
                        continue
                    v = mk(c2)
                    exp = c == c2
                    r1, r2 = obs(lambda: a == v), obs(lambda: a != v)
                    acc.step('promotable', 2, nontrivial=2, ok=2)
                    if r1 != ('ok', exp) or r2 != ('ok', not exp):
                        acc.violation('promotable', 'value', dict(cls=cls, bits=c, form=name, other=c2),
                                      '\n'.join(["import bitstring", f"a = bitstring.{cls}(bin={c!r})", f"v = {_src(name, c2)}", f"assert (a == v) is {exp} and (a != v) is {not exp}, (a == v, a != v)"]), exp, (r1, r2))
            for name, v in nonprom:
                r1, r2 = obs(lambda: a == v), obs(lambda: a != v)
                r3, r4 = obs(lambda: v == a), obs(lambda: v != a)
                acc.step('nonpromotable', 4, nontrivial=4, ok=4)
                if name == 'notimpl':
                    r3, r4 = ('ok', False), ('ok', True)
                if r1 != ('ok', False) or r2 != ('ok', True) or r3 != ('ok', False) or r4 != ('ok', True):
                    acc.violation('nonpromotable', 'exc' if r1[0] == 'exc' else 'value', dict(cls=cls, bits=c, other=name),
                                  '\n'.join(["import bitstring", f"a = bitstring.{cls}(bin={c!r})", f"assert (a == {_nsrc(name)}) is False and (a != {_nsrc(name)}) is True"]),
                                  False, (r1, r2))
            # hashability
            h = obs(lambda: hash(a))
            acc.step('unhashable', 1, nontrivial=1, ok=1)
            if (cls in HASHABLE) != (h[0] == 'ok') or (cls not in HASHABLE and h != ('exc', 'TypeError')):
                acc.violation('unhashable', 'value', dict(cls=cls, bits=c), '\n'.join(["import bitstring", f"a = bitstring.{cls}(bin={c!r})", "try:", "    hash(a); ok = True",
                                                                                       "except TypeError:", "    ok = False", f"assert ok is {cls in HASHABLE}"]), cls in HASHABLE, h)
            acc.outcome(('other', cls in HASHABLE))
    acc.sample(dict(event="BitArray(bin='101') == 3  -> False;  Bits(bin='10110010') == b'\\xb2' -> True"))


def _src(name, bits):
    if name == 'str':
        return repr(('0b' + bits) if bits else '')
    if name in ('bytes',):
        return repr(routes.to_bytes(bits))
    if name == 'bytearray':
        return f"bytearray({routes.to_bytes(bits)!r})"
    if name == 'memoryview':
        return f"memoryview({routes.to_bytes(bits)!r})"
    if name == 'mv_strided':
        return f"memoryview({routes.interleave(routes.to_bytes(bits))!r})[::2]"
    if name == 'mv_reversed':
        return f"memoryview({routes.to_bytes(bits)[::-1]!r})[::-1]"
    if name == 'mv_cast_H':
        return f"memoryview({routes.to_bytes(bits)!r}).cast('H')"
    if name == 'mv_2d':
        return f"memoryview({routes.to_bytes(bits)!r}).cast('B', (2, {len(bits) // 16}))"
    if name == 'bytesio':
        return f"__import__('io').BytesIO({routes.to_bytes(bits)!r})"
    if name == 'bytesio_cursor':
        return f"(lambda f: (f.read(), f)[1])(__import__('io').BytesIO({routes.to_bytes(bits)!r}))"
    if name == 'list':
        return repr([c == '1' for c in bits])
    if name == 'tuple':
        return repr(tuple(int(c) for c in bits))
    return f"__import__('bitarray').bitarray({bits!r})"


def _nsrc(name):
    return {'int': '3', 'zero': '0', 'negint': '-1', 'negint5': '-5', 'bigint': '2 ** 70', 'negbig': '-2 ** 70', 'bool': 'True', 'false': 'False',
            'float': '1.5', 'negfloat': '-1.5', 'nan': "float('nan')", 'inf': "float('inf')", 'None': 'None', 'object': 'object()', 'complex': '1j',
            'function': 'len', 'plain': "type('P', (), {})()", 'type': 'int', 'ellipsis': 'Ellipsis', 'notimpl': 'NotImplemented'}[name]


def run_triples(bs, acc, ctx):
    conts = list(families.all_bits(2))
    items = []
    for c in conts:
        for cls in CLASSES:
            items.append((c, cls, getattr(bs, cls)(bin=c)))
        items.append((c, 'str', ('0b' + c) if c else ''))
        items.append((c, 'list', [x == '1' for x in c]))
    n = 0
    for (ca, ka, a), (cb, kb, b), (cc, kc, c) in itertools.product(items, repeat=3):
        if ka in ('str', 'list') and kb in ('str', 'list'):
            continue          # at least one side of each comparison must be a bitstring
        if kb in ('str', 'list') and kc in ('str', 'list'):
            continue
        if ka in ('str', 'list') and kc in ('str', 'list'):
            continue
        ab, bc, ac = a == b, b == c, a == c
        n += 1
        if ab and bc and not ac or (ab != (ca == cb)) or (bc != (cb == cc)) or (ac != (ca == cc)):
            acc.violation('transitive', 'value', dict(a=[ka, ca], b=[kb, cb], c=[kc, cc]), "# transitivity of == violated\nassert False", None, (ab, bc, ac))
    acc.step('transitive', n, nontrivial=n, ok=n)
    acc.state(('triples', n))
    acc.outcome(('triples',))
