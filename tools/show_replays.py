#!/usr/bin/env python3
import json, glob, sys
pat = sys.argv[1] if len(sys.argv) > 1 else '*'
for f in sorted(glob.glob(f'/verif/replays/{pat}*.json')):
    a = json.load(open(f))
    d = a['detail']
    print(f"{a['property']} {a['op']}/{a['kind']} x{a['count_in_group']} root={d.get('root')} hist={d.get('history')} ev={d.get('event')}\n    exp={json.dumps(a['expected'])[:300]}\n    got={json.dumps(a['got'])[:200]}")
