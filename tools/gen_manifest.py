#!/usr/bin/env python3
"""Regenerate MANIFEST.json from tools/manifest_data.py (keeps the file valid and consistent)."""
import json, os, sys
here = os.path.dirname(os.path.abspath(__file__))
sys.path.insert(0, here)
import manifest_data as D

root = os.path.dirname(here)
props = [json.loads(l)['id'] for l in open(os.path.join(root, 'properties.jsonl'))]
checks = []
for pid in props:
    if pid not in D.CHECKS:
        continue
    c = D.CHECKS[pid]
    checks.append(dict(
        property_id=pid, quick_cmd=f"./check {pid} quick", thorough_cmd=f"./check {pid} thorough",
        evidence_file=f"/verif/evidence/{pid}.json", replay_cmd_template="./check replay {path}", engine="bsmc",
        level_claimed=dict(category='model_checking', text=c['text'], design_ref=c['design_ref']),
        level_note=c['note'], technique=c['technique']))
na = [dict(property_id=p, reason=D.NOT_APPLICABLE.get(p, 'no check is claimed for this property yet (machinery under construction; see DESIGN.md section 4)'))
      for p in props if p not in D.CHECKS]
m = dict(
    version=1,
    setup_cmd="./check selftest",
    hooks=dict(guard="BITSTRING_VERIF", enable="checks export BITSTRING_VERIF=1 before importing bitstring from /repo (pure Python: nothing to build)",
               baseline_off_cmd="cd /repo && env -u BITSTRING_VERIF /venv/bin/python -m pytest -ra -q -p no:cacheprovider --timeout=900 --continue-on-collection-errors",
               source_commits=D.HOOK_COMMITS, add_only=True),
    engines=[dict(name="bsmc", path="/verif/bsmc", serves_properties=[c['property_id'] for c in checks],
                  kind_free_text="hand-written explicit-state / bounded-exhaustive explorer for Python: enumerates every (state, event) of a finite alphabet (product explorer) or every event history up to a depth with state deduplication (BFS, replay from the initial state), runs each transition on the real implementation in lock-step with a reference model and compares return value and full post-state")],
    checks=checks,
    notes=D.NOTES,
    not_applicable=na)
json.dump(m, open(os.path.join(root, 'MANIFEST.json'), 'w'), indent=1)
print(f"MANIFEST.json: {len(checks)} checks, {len(na)} not claimed")
