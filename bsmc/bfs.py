"""Explicit-state breadth-first explorer over event histories (DESIGN 2.2).

A system provides
    build(root)                 -> world: dict namespace of fresh real objects (after reset_world())
    observe(world)              -> abstract state as the implementation shows it (hashable)
    fingerprint(world)          -> hidden implementation state, used for deduplication only
    events(state, depth, full)  -> list of Event
    model(state, event)         -> accept set: list of (obs_pattern, next_state)
    snippet(root, history, event, accept) -> standalone replay program
Events carry python source; the implementation step *is* the execution of that source in the world
namespace, so a history is its own replay program.

Live objects are never copied: every transition replays its history on a fresh world (histories are
short). After the replay the observed state must equal the recorded one (replay determinism, hard error).
"""
from __future__ import annotations

import collections

from . import core

Event = collections.namedtuple('Event', 'op args src dev')   # dev: True if a deviation (non-default argument choice)

_code = {}


def run_src(world, src):
    """Execute one event on the implementation. Returns ('ok', value) | ('exc', class name)."""
    c = _code.get(src)
    if c is None:
        try:
            c = (compile(src, '<event>', 'eval'), True)
        except SyntaxError:
            c = (compile(src, '<event>', 'exec'), False)
        _code[src] = c
    code, is_expr = c
    try:
        if is_expr:
            return ('ok', eval(code, world))
        exec(code, world)
        return ('ok', None)
    except core.Hang:
        raise
    except Exception as e:  # noqa: BLE001
        return ('exc', type(e).__name__)


class ReplayDivergence(Exception):
    pass


def obs_matches(pat, got):
    """pat: ('ok', value) | ('exc', None=any | tuple of acceptable class names)."""
    if pat[0] != got[0]:
        return False
    if pat[0] == 'ok':
        return pat[1] == got[1]
    return pat[1] is None or got[1] in pat[1]


def explore(system, acc, root, plan, canon_ret=None, state_cap=None, timeout=10.0):
    """BFS from one root. plan[d-1] = (menu kind passed to system.events, max deviations or None) for depth d:
    full menus at shallow depth, then reduced menus, then reduced menus with a bounded number of deviations."""
    core.reset_world()
    w0 = system.build(root)
    s0 = system.observe(w0)
    seen = {(s0, system.fingerprint(w0)): 0}
    acc.state((root_key(root), s0))
    frontier = [(s0, (), 0)]
    for depth in range(1, len(plan) + 1):
        nxt = []
        menu, max_dev = plan[depth - 1]
        for st, hist, ndev in frontier:
            evs = system.events(st, depth, menu)
            for ev in evs:
                if max_dev is not None and ev.dev and ndev >= max_dev:
                    continue
                core.reset_world()
                world = system.build(root)
                try:
                    with core.watchdog(timeout):
                        for h in hist:
                            run_src(world, h.src)
                        if hist and system.observe(world) != st:
                            raise ReplayDivergence(f"replay of {[h.src for h in hist]} from {root!r} gave {system.observe(world)!r}, recorded {st!r}")
                        got = run_src(world, ev.src)
                        if canon_ret is not None and got[0] == 'ok':
                            got = ('ok', canon_ret(got[1], world))
                        post = system.observe(world)
                except core.Hang:
                    acc.violation(ev.op, 'hang', dict(root=root_key(root), history=[h.src for h in hist], event=ev.src, group='hang'),
                                  system.snippet(root, hist, ev, None), 'termination', 'hang')
                    continue
                accept = system.model(st, ev)
                acc.step(ev.op, 1, nontrivial=int(any(a[0][0] == 'ok' for a in accept) and post != st or (accept[0][0][0] == 'ok' and accept[0][0][1] is not None)),
                         ok=int(accept[0][0][0] == 'ok'), rej=int(accept[0][0][0] == 'exc'))
                if len(accept) > 1:
                    acc.widened += 1
                hit = None
                for pat, nstate in accept:
                    if obs_matches(pat, got) and nstate == post:
                        hit = (pat, nstate)
                        break
                if hit is None:
                    kind = classify(accept, got, post)
                    acc.violation(ev.op, kind, dict(root=root_key(root), history=[h.src for h in hist], event=ev.src, args=core._j(ev.args),
                                                    state=core._j(st), group=system.group(ev, kind) if hasattr(system, 'group') else ''),
                                  system.snippet(root, hist, ev, accept), [list(map(core._j, a)) for a in accept], [core._j(got), core._j(post)])
                    acc.pruned += 1          # dead end: beyond a disagreement model and implementation differ
                    continue
                acc.outcome((ev.op, got if len(repr(got)) < 80 else hash(repr(got)), post if len(repr(post)) < 80 else hash(repr(post))))
                if state_cap is not None and not state_cap(post):
                    acc.disabled += 1
                    continue
                k = (post, system.fingerprint(world))
                nd = ndev + (1 if ev.dev else 0)
                old = seen.get(k)
                if old is None or old > nd:
                    if old is None:
                        acc.state((root_key(root), k))
                    seen[k] = nd
                    nxt.append((post, hist + (ev,), nd))
        acc.max_depth = max(acc.max_depth, depth)
        acc.extra[f'frontier_depth_{depth}'] += len(nxt)
        if nxt:
            s, h, _ = nxt[len(nxt) // 2]
            acc.sample(dict(root=root_key(root), history=[e.src for e in h], state=core._j(s)))
        frontier = nxt
        if not frontier:
            break
    return len(seen)


def root_key(root):
    return core._j(root)


def classify(accept, got, post):
    pat, nstate = accept[0]
    if got[0] == 'exc' and pat[0] == 'ok':
        return 'exc'
    if got[0] == 'ok' and pat[0] == 'exc':
        return 'noexc'
    if got[0] == 'exc':
        return 'frame' if post != nstate else 'excclass'
    if any(obs_matches(p, got) for p, _ in accept):
        return 'state'
    return 'value'
