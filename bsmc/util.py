"""Shared helpers for checks: observing the implementation, building replay snippets."""
from __future__ import annotations

from . import core

CLASSES = ('Bits', 'BitArray', 'ConstBitStream', 'BitStream')
STREAMS = ('ConstBitStream', 'BitStream')
MUTABLE = ('BitArray', 'BitStream')


def obs(thunk, conv=None):
    """Run one implementation call; the observation is ('ok', value) or ('exc', class name)."""
    try:
        v = thunk()
        return ('ok', conv(v) if conv else v)
    except core.Hang:
        raise
    except Exception as e:  # noqa: BLE001 - the exception class is the observation
        return ('exc', type(e).__name__)


def cb(v):
    """Canonical form of a returned bitstring: (class name, bits, pos or None)."""
    return (type(v).__name__, v.bin, getattr(v, 'pos', None) if type(v).__name__ in STREAMS else None)


def exc_is(got, *names):
    """True if observation `got` is an exception whose class name is one of names (incl. known subclasses)."""
    if got[0] != 'exc':
        return False
    sub = {'ValueError': ('ValueError', 'CreationError', 'InterpretError'),
           'IndexError': ('IndexError', 'ReadError'),
           'Error': ('Error', 'ReadError', 'ByteAlignError', 'CreationError', 'InterpretError')}
    for n in names:
        if got[1] == n or got[1] in sub.get(n, ()):
            return True
    return False


def vkind(exp, got):
    if got[0] == 'exc' and exp[0] == 'ok':
        return 'exc'
    if got[0] == 'ok' and exp[0] == 'exc':
        return 'noexc'
    if got[0] == 'exc':
        return 'excclass'
    return 'value'


def mk(cls_name, bits, pos=None):
    """Source text constructing an object."""
    if pos:
        return f"bitstring.{cls_name}(bin={bits!r}, pos={pos})"
    return f"bitstring.{cls_name}(bin={bits!r})"


def snippet(pre, expr, exp, conv=None, options=None):
    """Standalone replay program. exp = ('ok', value) | ('exc', 'ClassName' | ('A','B')).
    conv: source text of a function applied to the result before comparing (e.g. 'lambda r: r.bin')."""
    lines = ["import bitstring"]
    if options:
        lsb0, ba, mx = options
        if lsb0:
            lines.append("bitstring.options.lsb0 = True")
        if ba:
            lines.append("bitstring.options.bytealigned = True")
        if mx != 'saturate':
            lines.append(f"bitstring.options.mxfp_overflow = {mx!r}")
    lines += list(pre)
    c = f"({conv})" if conv else ""
    if exp[0] == 'ok':
        lines += [f"r = {c}({expr})", f"assert r == {exp[1]!r}, r"]
    else:
        names = exp[1] if isinstance(exp[1], str) else ', '.join(exp[1])
        cls = names if isinstance(exp[1], str) else f"({names})"
        cls = cls.replace('ReadError', 'bitstring.ReadError').replace('CreationError', 'bitstring.CreationError')
        cls = cls.replace('InterpretError', 'bitstring.InterpretError')
        if cls == 'Error' or cls.startswith('(Error') or ', Error' in cls:
            cls = cls.replace('Error', 'bitstring.Error', 1) if cls == 'Error' else cls
        lines += ["try:", f"    r = {c}({expr})", f"except {cls}:", "    pass", "else:",
                  f"    assert False, ('expected {names}', r)"]
    return '\n'.join(lines)


def fmt_slice(a, b, c):
    f = lambda x: '' if x is None else str(x)
    return f"{f(a)}:{f(b)}" + ('' if c is None else f":{c}")
