"""./check Cnn quick|thorough | replay <file> | selftest | list"""
import importlib
import json
import os
import pkgutil
import sys

from . import core


def check_modules():
    from . import checks
    return sorted(m.name for m in pkgutil.iter_modules(checks.__path__) if m.name.startswith('c'))


def main(argv):
    if not argv:
        print(__doc__)
        return 2
    cmd = argv[0]
    seed = int(os.environ.get('VERIF_SEED', '0') or 0)
    if cmd == 'selftest':
        core.import_bitstring()
        n = 0
        for name in check_modules():
            mod = importlib.import_module(f'bsmc.checks.{name}')
            if hasattr(mod, 'selftest'):
                mod.selftest()
                n += 1
        import subprocess
        r = subprocess.run([sys.executable, os.path.join(core.VERIF, 'tools', 'lint_globals.py')], capture_output=True, text=True)
        if r.returncode != 0:
            print(r.stdout + r.stderr)
            print("selftest FAILED: undefined names in the harness")
            return 2
        print(f"selftest ok: bitstring from {core.REPO}, {len(check_modules())} checks, {n} model self-tests, "
              f"{len(core.find_caches())} caches found")
        return 0
    if cmd == 'list':
        print('\n'.join(check_modules()))
        return 0
    if cmd == 'replay':
        with open(argv[1]) as f:
            art = json.load(f)
        st, out = core.run_snippet(art['python_snippet'])
        print(out)
        if st == 'passes':
            print(f"replay passes on {core.REPO}: disagreement not reproduced")
            return 0
        print(f"VIOLATION property={art['property']} replay={os.path.abspath(argv[1])}")
        return 1
    prop = cmd.upper()
    tier = argv[1] if len(argv) > 1 else os.environ.get('VERIF_TIER', 'quick')
    if tier not in ('quick', 'thorough'):
        print('tier must be quick or thorough')
        return 2
    name = prop.lower()
    if name not in check_modules():
        print(f"unknown check {prop}")
        return 2
    return core.run_check(f'bsmc.checks.{name}', tier, seed)


if __name__ == '__main__':
    sys.exit(main(sys.argv[1:]))
