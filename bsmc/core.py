"""bsmc core: environment, accounting, parallel exploration driver, violations, evidence.

Every check is a module in bsmc.checks with

    PROPERTY = 'Cnn'
    def shards(tier, seed)        -> list of JSON-able work items (deterministic)
    def run_shard(shard, acc)     -> executes every transition of the shard on the real
                                     implementation in lock-step with the reference model,
                                     reporting through `acc`
    def describe(tier)            -> dict(bounds=..., rule=..., assumptions=[...])
    optional  def selftest()      -> raises on a broken reference model
    optional  VACUITY = dict(min_outcomes=..)  model-side vacuity floors

The driver runs the shards on a fork pool, merges the accumulators, matches violations against
known findings, confirms new ones in a fresh interpreter, writes replay artefacts and evidence.
"""
from __future__ import annotations

import collections
import contextlib
import hashlib
import importlib
import json
import multiprocessing as mp
import os
import signal
import subprocess
import sys
import time
import traceback

sys.set_int_max_str_digits(0)
VERIF = os.path.dirname(os.path.dirname(os.path.abspath(__file__)))
REPO = os.path.realpath(os.environ.get('BSMC_REPO', '/repo'))
PY = sys.executable
GUARD = 'BITSTRING_VERIF'

_bitstring = None


def import_bitstring():
    """Import bitstring from the tree under test (never from site-packages)."""
    global _bitstring
    if _bitstring is not None:
        return _bitstring
    os.environ[GUARD] = '1'
    sys.dont_write_bytecode = True
    if REPO in sys.path:
        sys.path.remove(REPO)
    sys.path.insert(0, REPO)
    import bitstring
    f = os.path.realpath(bitstring.__file__)
    if not f.startswith(REPO + os.sep):
        raise SystemExit(f"harness error: bitstring imported from {f}, expected under {REPO}")
    _bitstring = bitstring
    return bitstring


# ------------------------------------------------------------------------------------------
# global-state ownership: options and caches

_caches = None


def find_caches():
    """Every functools.lru_cache reachable from the package's modules and classes."""
    global _caches
    if _caches is not None:
        return _caches
    bs = import_bitstring()
    import types
    found = {}
    for modname, mod in list(sys.modules.items()):
        if not (modname == 'bitstring' or modname.startswith('bitstring.')) or mod is None:
            continue
        for name, obj in list(vars(mod).items()):
            cands = [(f"{modname}.{name}", obj)]
            if isinstance(obj, type) and getattr(obj, '__module__', '').startswith('bitstring'):
                for k, v in list(vars(obj).items()):
                    if isinstance(v, (classmethod, staticmethod)):
                        v = v.__func__
                    cands.append((f"{obj.__module__}.{obj.__name__}.{k}", v))
            for qn, o in cands:
                if hasattr(o, 'cache_clear') and hasattr(o, 'cache_info'):
                    found[id(o)] = (qn, o)
    _caches = sorted(found.values(), key=lambda t: t[0])
    return _caches


def clear_caches():
    for _, c in find_caches():
        c.cache_clear()


def set_options(lsb0=False, bytealigned=False, mxfp_overflow='saturate'):
    bs = import_bitstring()
    o = bs.options
    if o.lsb0 != lsb0:
        o.lsb0 = lsb0
    if o.bytealigned != bytealigned:
        o.bytealigned = bytealigned
    if o.mxfp_overflow != mxfp_overflow:
        o.mxfp_overflow = mxfp_overflow


def get_options():
    o = import_bitstring().options
    return (o.lsb0, o.bytealigned, o.mxfp_overflow)


def reset_world():
    set_options()
    clear_caches()


# ------------------------------------------------------------------------------------------
# watchdog

class Hang(BaseException):
    """Raised inside the implementation call when the watchdog fires."""


def _on_alarm(signum, frame):
    raise Hang()


@contextlib.contextmanager
def watchdog(seconds):
    """Raise Hang in the guarded block after `seconds` of CPU time of this process (ITIMER_PROF: a call that loops forever burns CPU, while a
    process that is merely starved on an overloaded machine does not - a wall-clock limit of 10 s once fired spuriously during a sweep that
    oversubscribed the cores three times), with a wall-clock fallback at 30 x seconds (at least 300 s) for a call that blocks without
    using CPU.  Nested use restores the enclosing timers."""
    old_alarm = signal.signal(signal.SIGALRM, _on_alarm)
    old_prof = signal.signal(signal.SIGPROF, _on_alarm)
    prev_real = signal.setitimer(signal.ITIMER_REAL, max(30 * seconds, 300))
    prev_prof = signal.setitimer(signal.ITIMER_PROF, seconds)
    try:
        yield
    finally:
        signal.setitimer(signal.ITIMER_PROF, prev_prof[0])
        signal.setitimer(signal.ITIMER_REAL, prev_real[0])
        signal.signal(signal.SIGPROF, old_prof)
        signal.signal(signal.SIGALRM, old_alarm)


# ------------------------------------------------------------------------------------------
# accounting

def h64(obj) -> int:
    return int.from_bytes(hashlib.blake2b(repr(obj).encode(), digest_size=8).digest(), 'big')


MAX_GROUPS = 400


class Acc:
    """Per-shard accumulator; merged in the parent."""

    def __init__(self, prop, tier, seed):
        self.prop = prop
        self.tier = tier
        self.seed = seed
        self.transitions = 0
        self.validated = 0
        self.nontrivial = 0
        self.states = set()
        self.outcomes = set()
        self.per_op = collections.Counter()
        self.model_ok = collections.Counter()      # op -> number of model successes
        self.model_rej = collections.Counter()     # op -> number of model rejections
        self.widened = 0
        self.pruned = 0
        self.disabled = 0
        self.groups = {}        # group key -> dict(count, first, finding)
        self.nviol = 0
        self.samples = []
        self.caps = []
        self.extra = collections.Counter()
        self.max_depth = 0
        self._match = None
        self.shard = None

    # -- counting ------------------------------------------------------------------------
    def state(self, key):
        self.states.add(key if isinstance(key, int) else hash(repr(key)))

    def step(self, op, n=1, nontrivial=0, ok=0, rej=0):
        """Account for n executed+validated transitions of operation `op`."""
        self.transitions += n
        self.validated += n
        self.nontrivial += nontrivial
        self.per_op[op] += n
        if ok:
            self.model_ok[op] += ok
        if rej:
            self.model_rej[op] += rej

    def outcome(self, key):
        if len(self.outcomes) < 200000:
            self.outcomes.add(key if isinstance(key, int) else hash(repr(key)))

    def sample(self, case):
        if len(self.samples) < 3:
            self.samples.append(case)

    def cap(self, what):
        if what not in self.caps:
            self.caps.append(what)

    # -- violations ----------------------------------------------------------------------
    def violation(self, op, kind, detail, snippet, expected=None, got=None):
        """Implementation disagreed with the model on one transition.

        op      public operation (e.g. 'findall')
        kind    'value' | 'exc' | 'noexc' | 'state' | 'frame' | 'invariant' | 'hang' | 'class'
        detail  JSON-able dict describing state and event (used by known-finding predicates)
        snippet standalone python reproducing the disagreement with a plain assert
        """
        from . import findings
        self.nviol += 1
        v = dict(property=self.prop, op=op, kind=kind, detail=detail, expected=_j(expected), got=_j(got),
                 snippet=snippet, shard=self.shard)
        fid = findings.match(v)
        key = ('K', fid) if fid else ('V', op, kind, str(detail.get('group', '')))
        g = self.groups.get(key)
        if g is None:
            if len(self.groups) >= MAX_GROUPS:
                key = ('V', 'overflow', 'overflow', '')
                g = self.groups.get(key)
                if g is None:
                    g = self.groups[key] = dict(count=0, first=v, finding=None)
            else:
                g = self.groups[key] = dict(count=0, first=v, finding=fid)
        g['count'] += 1
        return fid

    # -- merge ---------------------------------------------------------------------------
    def export(self):
        d = dict(self.__dict__)
        d.pop('_match', None)
        return d

    def merge(self, d):
        self.transitions += d['transitions']
        self.validated += d['validated']
        self.nontrivial += d['nontrivial']
        self.states |= d['states']
        self.outcomes |= d['outcomes']
        self.per_op.update(d['per_op'])
        self.model_ok.update(d['model_ok'])
        self.model_rej.update(d['model_rej'])
        self.widened += d['widened']
        self.pruned += d['pruned']
        self.disabled += d['disabled']
        self.nviol += d['nviol']
        self.extra.update(d['extra'])
        self.max_depth = max(self.max_depth, d['max_depth'])
        for c in d['caps']:
            self.cap(c)
        for k, g in d['groups'].items():
            mine = self.groups.get(k)
            if mine is None:
                self.groups[k] = g
            else:
                mine['count'] += g['count']
        for s in d['samples']:
            if len(self.samples) < 6:
                self.samples.append(s)


def _j(x):
    """Make a value JSON-able for artefacts."""
    try:
        t = json.dumps(x)
        if len(t) > 4000:
            return t[:2000] + f'...<{len(t)} chars>'
        return x
    except (TypeError, ValueError):
        r = repr(x)
        return r if len(r) < 4000 else r[:2000] + f'...<{len(r)} chars>'


# ------------------------------------------------------------------------------------------
# observation helpers

def exc_name(e):
    return type(e).__name__


def canon(v):
    """Canonical, hashable, JSON-able form of an implementation return value."""
    bs = import_bitstring()
    if isinstance(v, bs.Bits):
        pos = getattr(v, 'pos', None) if isinstance(v, bs.ConstBitStream) else None
        return ('bits', type(v).__name__, v.bin, pos)
    if isinstance(v, float):
        return ('float', v.hex() if v == v else 'nan')
    if isinstance(v, (list, tuple)):
        return (type(v).__name__,) + tuple(canon(x) for x in v)
    if isinstance(v, (bytes, bytearray)):
        return ('bytes', bytes(v).hex())
    if isinstance(v, (int, str, bool)) or v is None:
        return v
    return ('obj', type(v).__name__, repr(v))


# ------------------------------------------------------------------------------------------
# driver

def _worker(args):
    modname, shard, tier, seed = args
    mod = importlib.import_module(modname)
    acc = Acc(mod.PROPERTY, tier, seed)
    acc.shard = _j(shard)
    import_bitstring()
    reset_world()
    try:
        mod.run_shard(shard, acc)
    except Hang:
        acc.violation('harness', 'hang', dict(shard=_j(shard), group='shard-hang'),
                      f"# shard {shard!r} hung outside a guarded call\nassert False")
    except Exception as e:
        # An exception that escaped the check. If it was RAISED INSIDE THE LIBRARY (innermost frame under REPO) in a call the check makes
        # unguarded - a call that always succeeds on a tree where the property holds, else this shard would crash there too - the library
        # has stopped doing what the reference behaviour requires: that is a disagreement, reported with the shard itself as the replay.
        # Anything else is a defect of the harness (exit 2).
        tb = e.__traceback__
        inner = tb
        while inner.tb_next is not None:
            inner = inner.tb_next
        where = inner.tb_frame.f_code.co_filename
        if os.path.realpath(where).startswith(REPO + os.sep):
            frames = traceback.extract_tb(tb)
            call_site = next((f"{os.path.basename(f.filename)}:{f.lineno} {f.line}" for f in reversed(frames) if not os.path.realpath(f.filename).startswith(REPO + os.sep)), '?')
            group = f"unguarded|{type(e).__name__}"
            key = ('V', 'library-call', 'exc', group)
            acc.violation('library-call', 'exc', dict(shard=_j(shard), exception=type(e).__name__, message=str(e)[:200], raised_in=os.path.relpath(where, REPO),
                                                      harness_call=call_site[:200], group=group),
                          shard_snippet(modname, tier, seed, shard, key), 'the call succeeds (it does on every tree where the property holds)', f"{type(e).__name__}: {str(e)[:120]}")
            return acc.export()
        return dict(error=traceback.format_exc(), shard=_j(shard))
    finally:
        try:
            reset_world()
        except Exception:
            pass
    return acc.export()


def load_known():
    p = os.path.join(VERIF, 'known_findings.json')
    if not os.path.exists(p):
        return []
    with open(p) as f:
        return json.load(f)['findings']


def run_snippet(snippet, timeout=120):
    """Run a replay snippet in a fresh interpreter against the tree under test.
    Returns (status, output): status 'fails' (assertion / exception -> violation reproduces),
    'passes', or 'timeout'."""
    env = dict(os.environ)
    env['PYTHONPATH'] = REPO
    env['PYTHONDONTWRITEBYTECODE'] = '1'
    env['PYTHONHASHSEED'] = '0'
    env['PYTHONINTMAXSTRDIGITS'] = '0'
    env[GUARD] = '1'
    try:
        r = subprocess.run([PY, '-c', snippet], env=env, capture_output=True, text=True, timeout=timeout,
                           cwd=VERIF)
    except subprocess.TimeoutExpired:
        return 'timeout', ''
    return ('passes' if r.returncode == 0 else 'fails'), (r.stdout + r.stderr)[-2000:]


def shard_snippet(modname, tier, seed, shard, key):
    return '\n'.join([
        "# history-dependent disagreement: replays one deterministic shard of the exploration in a fresh interpreter",
        "import sys", f"sys.path.insert(0, {VERIF!r})",
        "from bsmc import core", f"r = core._worker(({modname!r}, {shard!r}, {tier!r}, {seed!r}))",
        "assert 'error' not in r, r.get('error')",
        f"assert {key!r} not in r['groups'], r['groups'][{key!r}]['first']['detail']"])


def run_check(modname, tier, seed, jobs=None):
    t0 = time.time()
    mod = importlib.import_module(modname)
    prop = mod.PROPERTY
    import_bitstring()
    if hasattr(mod, 'selftest'):
        mod.selftest()
    shards = list(mod.shards(tier, seed))
    # VERIF_SEED rotates shard order only (never what is enumerated)
    if shards:
        r = seed % len(shards)
        shards = shards[r:] + shards[:r]
    total = Acc(prop, tier, seed)
    jobs = jobs or int(os.environ.get('BSMC_JOBS', '0')) or min(16, os.cpu_count() or 1)
    errors = []
    ctx = mp.get_context('fork')
    if jobs == 1 or len(shards) <= 1:
        results = (_worker((modname, s, tier, seed)) for s in shards)
        pool = None
    else:
        pool = ctx.Pool(jobs, maxtasksperchild=1)   # every shard starts from the pristine parent image: shards are deterministic
        results = pool.imap_unordered(_worker, [(modname, s, tier, seed) for s in shards], chunksize=1)
    try:
        for res in results:
            if 'error' in res:
                errors.append(res)
            else:
                total.merge(res)
    finally:
        if pool is not None:
            pool.close()
            pool.join()
    if errors:
        print(f"HARNESS-ERROR property={prop}: {len(errors)} shard(s) crashed in the harness")
        print(errors[0]['error'])
        print('shard:', errors[0]['shard'])
        return 2
    return finish(mod, total, tier, seed, time.time() - t0, nshards=len(shards))


def finish(mod, total, tier, seed, wall, nshards):
    prop = mod.PROPERTY
    desc = mod.describe(tier)
    known = {k['id']: k for k in load_known() if k['property'] == prop}
    status = 0
    lines = []
    new_groups = []
    known_hit = {}
    for key, g in sorted(total.groups.items(), key=lambda kv: str(kv[0])):
        if key[0] == 'K' and key[1] in known and known[key[1]]['status'] == 'open':
            known_hit[key[1]] = known_hit.get(key[1], 0) + g['count']
        else:
            new_groups.append((key, g))
    for fid, n in sorted(known_hit.items()):
        lines.append(f"KNOWN-FINDING: property={prop} {fid}: {known[fid]['what']} [{n} transitions]")
    # open findings that were not hit at all: is the canonical snippet stale?
    for fid, k in sorted(known.items()):
        if k['status'] == 'open' and fid not in known_hit and k.get('snippet') and tier in k.get('tiers', ['quick', 'thorough']):
            st, _ = run_snippet(k['snippet'])
            if st == 'passes':
                lines.append(f"KNOWN-FINDING-STALE: property={prop} {fid} no longer reproduces")
    os.makedirs(os.path.join(VERIF, 'replays'), exist_ok=True)
    written = 0
    # repaired findings suppress nothing; their canonical programs are replayed on every run, so a defect that returns is reported
    # even if it were to slip through the bounds of the exploration
    regressed = 0
    for fid, k in sorted(known.items()):
        if k['status'] == 'fixed' and k.get('snippet'):
            st, out = run_snippet(k['snippet'])
            if st != 'passes':
                path = os.path.join(VERIF, 'replays', f"{prop}-fixed-{fid}.json")
                with open(path, 'w') as f:
                    json.dump(dict(property=prop, tier=tier, seed=seed, op='regression', kind='fixed-finding-returned', detail=dict(finding=fid, what=k['what'], commit=k.get('commit')),
                                   expected='passes', got=st, count_in_group=1, python_snippet=k['snippet'], replay_output=out, repo=REPO), f, indent=1)
                lines.append(f"VIOLATION property={prop} replay={path}")
                lines.append(f"  # repaired finding {fid} ({k.get('commit')}) fails again: {k['what']}")
                status = 1
                regressed += 1
    harness_err = False
    for key, g in new_groups:
        v = g['first']
        if written >= 25:
            lines.append(f"  # (not written out) op={v['op']} kind={v['kind']} x{g['count']} detail={json.dumps(v['detail'], default=repr)[:200]}")
            continue
        # confirm in a fresh interpreter, twice, before it is believed
        st1, out1 = run_snippet(v['snippet'])
        st2, out2 = run_snippet(v['snippet'])
        if st1 == st2 == 'passes' and v.get('shard') is not None:
            # The standalone program does not reproduce it: the disagreement depends on what the worker did earlier
            # (global state leaked by the library). Shards are deterministic, so re-run the whole shard twice in fresh
            # interpreters; if the same disagreement recurs it is real and the replay is the shard itself.
            shard_snip = shard_snippet(mod.__name__, tier, seed, v['shard'], key)
            st1, out1 = run_snippet(shard_snip, timeout=1800)
            st2, out2 = run_snippet(shard_snip, timeout=1800)
            if st1 == st2 == 'fails':
                v = dict(v)
                v['snippet'] = shard_snip
                v['detail'] = dict(v['detail'], history_dependent='standalone program passes; reproduces only after the shard prefix')
        if st1 != st2 or st1 == 'passes':
            lines.append(f"HARNESS-ERROR property={prop} non-reproducible disagreement op={v['op']} kind={v['kind']} "
                         f"(fresh-interpreter replay: {st1}/{st2}); detail={json.dumps(v['detail'])[:300]}")
            harness_err = True
            continue
        digest = hashlib.blake2b(json.dumps([v['op'], v['kind'], v['detail']], sort_keys=True, default=repr).encode(),
                                 digest_size=6).hexdigest()
        path = os.path.join(VERIF, 'replays', f"{prop}-{digest}.json")
        art = dict(property=prop, tier=tier, seed=seed, op=v['op'], kind=v['kind'], detail=v['detail'],
                   expected=v['expected'], got=v['got'], count_in_group=g['count'], python_snippet=v['snippet'],
                   replay_output=out1, repo=REPO)
        with open(path, 'w') as f:
            json.dump(art, f, indent=1, default=repr)
        lines.append(f"VIOLATION property={prop} replay={path}")
        lines.append(f"  # op={v['op']} kind={v['kind']} x{g['count']} expected={json.dumps(v['expected'], default=repr)[:160]} "
                     f"got={json.dumps(v['got'], default=repr)[:160]}")
        written += 1
        status = 1
    if harness_err and status == 0:
        status = 2
    # vacuity guards (model-side only)
    vac = getattr(mod, 'VACUITY', {})
    vac_msgs = []
    if total.transitions == 0:
        vac_msgs.append('no transitions executed')
    for op in vac.get('need_ok', []):
        if total.model_ok.get(op, 0) == 0:
            vac_msgs.append(f"model never accepted op {op}")
    for op in vac.get('need_rej', []):
        if total.model_rej.get(op, 0) == 0:
            vac_msgs.append(f"model never rejected op {op}")
    if len(total.outcomes) < vac.get('min_outcomes', 2):
        vac_msgs.append(f"only {len(total.outcomes)} distinct outcomes")
    if vac_msgs and status == 0:
        lines.append(f"HARNESS-ERROR property={prop} vacuous exploration: {'; '.join(vac_msgs)}")
        status = 2
    exhaustive = not total.caps
    cov = dict(
        states=max(len(total.states), 1), transitions=max(total.transitions, 1),
        traces_validated_against_impl=total.validated,
        samples=total.samples or ['(none)'],
        evaluations=max(total.transitions, 1), distinct_nontrivial=total.nontrivial,
        rule=desc['rule'], exhaustive=exhaustive, bounds=desc['bounds'],
        distinct_outcomes=len(total.outcomes), per_operation=dict(sorted(total.per_op.items())),
        model_accepts=dict(sorted(total.model_ok.items())), model_rejects=dict(sorted(total.model_rej.items())),
        widened_accepts=total.widened, pruned_after_deviation=total.pruned, disabled_events=total.disabled,
        known_findings_hit=known_hit, fixed_findings_replayed=sum(1 for k in known.values() if k['status'] == 'fixed'), fixed_findings_regressed=regressed, caps_hit=total.caps, shards=nshards, max_depth=total.max_depth,
        extra=dict(total.extra), repo=REPO, options_after=list(get_options()),
        caches=[q for q, _ in find_caches()],
    )
    ev = dict(property_id=prop, tier=tier, seed=seed, level='model_checking', coverage=cov,
              assumptions=desc.get('assumptions', []), wall_s=round(wall, 2),
              violations=sum(g['count'] for _, g in new_groups) + regressed)
    # BSMC_EVIDENCE_DIR: experiments against a scratch copy of the library (BSMC_REPO) must not overwrite the evidence of /repo
    evdir = os.environ.get('BSMC_EVIDENCE_DIR') or os.path.join(VERIF, 'evidence')
    os.makedirs(evdir, exist_ok=True)
    with open(os.path.join(evdir, f"{prop}.json"), 'w') as f:
        json.dump(ev, f, indent=1, default=repr)
    for ln in lines:
        print(ln)
    print(f"{prop} {tier} seed={seed}: states={len(total.states)} transitions={total.transitions} "
          f"nontrivial={total.nontrivial} outcomes={len(total.outcomes)} known={sum(known_hit.values())} "
          f"new_violation_groups={len(new_groups)} wall={wall:.1f}s exit={status}")
    return status
