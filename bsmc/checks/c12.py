"""C12 - LSB0 mode is a pure index mirror of MSB0 mode (product explorer + exhaustive toggle histories).

state  = (class, content) under options.lsb0 = True       event = every position-taking operation with its argument menu
oracle = the mirror of the msb0 *reference models* (never of the msb0 implementation):
             op_lsb0(x, bit operands, positions) = R( op_msb0( R(x), R(bit operands), positions ) ),  R = bit reversal
         rotations and shifts keep their direction relative to the most significant end, only [start, end) is mirrored;
         whole-value interpretations, ==, hash, len, bin, tobytes are identical in both modes.
toggle histories: every sequence of <= D toggles / calls; results must depend only on the option value at the time of the call.
"""
from __future__ import annotations

import itertools

from .. import core, families, routes
from ..models import search as S, mut as M
from ..util import CLASSES, STREAMS, obs, vkind, mk, fmt_slice

PROPERTY = 'C12'
VACUITY = dict(need_ok=['index', 'slice', 'setitem', 'setslice', 'delitem', 'delslice', 'set', 'invert', 'insert', 'overwrite', 'append', 'prepend', 'reverse',
                        'rol', 'ror', 'byteswap', 'replace', 'find', 'rfind', 'findall', 'startswith', 'endswith', 'cut', 'read', 'unpack', 'pack', 'whole', 'toggle'],
               need_rej=['index', 'find', 'insert'], min_outcomes=300)


def R(s):
    return s[::-1]


def describe(tier):
    q = tier == 'quick'
    return dict(bounds=dict(contents='all contents of length <= %d (index/slice/mutators), <= %d (search)' % (6 if q else 11, 7 if q else 12),
                            slice_triples='all a,b in {None} U [-L-2, L+2], c in {None,+-1,+-2,+-3,+-L,+-(L+1)} on index-plane contents for L <= %d' % (9 if q else 20),
                            search='patterns of length 1..3 and byte patterns; windows None,0..L+1,-1; bytealigned None/False/True; count None,0,1,2',
                            long_data='16, 17, 24, 33, 64, 65 bits' + ('' if q else '; 8191, 8192, 8193, 16400 bits (reverse-scan chunk boundary)'),
                            toggles='every sequence of <= %d events from {toggle, 16 representative calls}' % (3 if q else 4)),
                rule='each (content, event) executed once under lsb0=True and compared with the mirrored msb0 reference; non-trivial = the mirrored reference yields a value',
                assumptions=['the mirror law as stated in C12; msb0 reference models are those of C01/C03/C07 (self-tested there)',
                             'split under lsb0 and exp-Golomb under lsb0 are outside this property (C20 / C10)'])


def shards(tier, seed):
    q = tier == 'quick'
    out = []
    for L in range(0, 10 if q else 21):
        out.append(dict(kind='triples', L=L))
    conts = list(families.all_bits(6 if q else 11))
    for part in families.chunk(conts, 24 if q else 48):
        out.append(dict(kind='mut', conts=part))
    sconts = list(families.all_bits(7 if q else 12))
    for part in families.chunk(sconts, 24 if q else 64):
        out.append(dict(kind='search', conts=part))
    longs = []
    for L in (16, 17, 24, 33, 64, 65):
        longs += families.edge(L, seed, full=False)[:6]
    for part in families.chunk(longs, 8):
        out.append(dict(kind='search', conts=part, byte=True))
    if not q:
        for L in (8191, 8192, 8193, 16400):
            out.append(dict(kind='long', L=L, seed=seed))
    else:
        out.append(dict(kind='long', L=8193, seed=seed))
    out.append(dict(kind='stream'))
    out.append(dict(kind='whole'))
    out.append(dict(kind='toggle', depth=3 if q else 4))
    return out


def run_shard(shard, acc):
    bs = core.import_bitstring()
    core.set_options(lsb0=True)
    try:
        with core.watchdog(2400):
            k = shard['kind']
            if k == 'triples':
                triples(bs, acc, shard['L'])
            elif k == 'mut':
                for d in shard['conts']:
                    mutators(bs, acc, d)
            elif k == 'search':
                for d in shard['conts']:
                    search(bs, acc, d, shard.get('byte', False))
            elif k == 'long':
                long_search(bs, acc, shard['L'], shard['seed'])
            elif k == 'stream':
                streams(bs, acc)
            elif k == 'whole':
                whole(bs, acc)
            else:
                core.set_options(lsb0=False)
                toggles(bs, acc, shard['depth'])
    finally:
        core.set_options()
        if _FWCTX[0] is not None:
            _FWCTX[0].close()
            _FWCTX[0] = None


PRE = ["import bitstring", "bitstring.options.lsb0 = True"]


def snip(pre, expr, exp, conv=None):
    c = f"({conv})" if conv else ""
    if exp[0] == 'ok':
        return '\n'.join(PRE + list(pre) + [f"r = {c}({expr})", f"assert r == {exp[1]!r}, r"])
    return '\n'.join(PRE + list(pre) + ["try:", f"    r = {c}({expr})", "except (ValueError, IndexError):", "    pass", "else:", f"    assert False, r"])


def planes(L):
    if L == 0:
        return ['']
    nb = max(1, (L - 1).bit_length())
    return list(dict.fromkeys(''.join(str((i >> k) & 1) for i in range(L)) for k in range(nb)))


VIEW_ROUTES = ('file_len', 'file_off3_len', 'bytes_off3', 'bytesio')


def triples(bs, acc, L):
    ctx = routes.Ctx()
    try:
        _triples(bs, acc, L, ctx)
    finally:
        ctx.close()


def _triples(bs, acc, L, ctx):
    rng = [None] + list(range(-L - 2, L + 3))
    steps = [c for c in dict.fromkeys([None, 1, -1, 2, -2, 3, -3, L, -L, L + 1, -L - 1]) if c != 0]
    for ci, d in enumerate(planes(L)):
        cls = CLASSES[(L + ci) % 4]
        rd = R(d)
        # the plain in-memory object, and the same content as a window onto a longer source (file, bytes, BytesIO)
        objs = [([f"s = {mk(cls, d)}"], getattr(bs, cls)(bin=d), '')]
        for r in VIEW_ROUTES:
            o = routes.build(bs, r, cls, d, ctx)
            if o is not None:
                objs.append(([routes.SNIPPET_PRELUDE, f"s = {routes.source(r, cls, d)}"], o, r))
        for pre, s, rname in objs:
            acc.state((cls, d, rname))
            n = nt = 0
            for i in range(-L - 2, L + 3):
                exp = ('ok', rd[i] == '1') if -L <= i < L else ('exc', 'IndexError')
                got = obs(lambda: s[i])
                acc.step('index', 1, nontrivial=int(exp[0] == 'ok'), ok=int(exp[0] == 'ok'), rej=int(exp[0] != 'ok'))
                if got != exp:
                    acc.violation('index', vkind(exp, got), dict(cls=cls, bits=d, i=i, route=rname, group=rname), snip(pre, f"s[{i}]", exp), exp, got)
            for c in steps:
                for a in rng:
                    for b in rng:
                        e = R(rd[a:b:c])
                        try:
                            r = s[a:b:c].bin
                        except core.Hang:
                            raise
                        except Exception as ex:  # noqa: BLE001
                            r = ('exc', type(ex).__name__)
                        n += 1
                        nt += bool(e)
                        if r != e:
                            acc.violation('slice', 'value' if isinstance(r, str) else 'exc',
                                          dict(cls=cls, bits=d, a=a, b=b, c=c, route=rname, group=('neg' if (c or 1) < 0 else 'pos') + rname),
                                          snip(pre, f"s[{fmt_slice(a, b, c)}].bin", ('ok', e)), e, r)
            acc.step('slice', n, nontrivial=nt, ok=n)
        acc.outcome(('slice', L, d))
    acc.sample(dict(L=L, event="s[a:b:c] for all a,b in {None} U [-L-2, L+2] and 11 steps under lsb0 vs R(R(bits)[a:b:c]), in-memory and window objects"))


def P(L):
    return list(dict.fromkeys([-L - 1, -L, -1, 0, 1, L // 2, L - 1, L, L + 1]))


_FWCTX = [None]


def _fw(bits):
    """Bits(filename=..., length=len(bits)) on a 3-byte file that goes on with 1s (same helper as the C03 operand FW)."""
    bs = core.import_bitstring()
    if _FWCTX[0] is None:
        _FWCTX[0] = routes.Ctx()
    data = bits + '1' * (24 - len(bits))
    lsb0 = bs.options.lsb0
    return bs.Bits(filename=_FWCTX[0].file_for(int(data, 2).to_bytes(3, 'big')), length=len(bits))


def apply_mut(acc, bs, cls, d, op, src, alts, group=''):
    """Run a mutator under lsb0 on a fresh object; alts = mirrored accept set [(obs_pattern, new_bits_in_stored_order)]."""
    s = getattr(bs, cls)(bin=d)
    ns = {'s': s, 'bitstring': bs, 'FW': _fw}
    from ..bfs import run_src
    got = run_src(ns, src)
    post = ns['s'].bin
    ok_primary = alts[0][0][0] == 'ok'
    acc.step(op, 1, nontrivial=int(ok_primary), ok=int(ok_primary), rej=int(not ok_primary))
    hit = False
    for pat, nb in alts:
        if pat[0] == got[0] and (pat[0] == 'exc' or pat[1] == got[1]) and nb == post:
            hit = True
            break
    if not hit:
        kind = 'exc' if got[0] == 'exc' and ok_primary else ('noexc' if got[0] == 'ok' and not ok_primary else ('frame' if got[0] == 'exc' else 'value'))
        is_expr = True
        try:
            compile(src, '<e>', 'eval')
        except SyntaxError:
            is_expr = False
        from .c03 import FW_SRC
        lines = PRE + ([FW_SRC] if 'FW(' in src else []) + [f"s = {mk(cls, d)}", "try:", f"    r = ('ok', {src})" if is_expr else f"    {src}; r = ('ok', None)", "except Exception:", "    r = ('exc', None)",
                       f"assert (r, s.bin) in {[((p[0], p[1] if p[0] == 'ok' else None), nb) for p, nb in alts]!r}, (r, s.bin)"]
        acc.violation(op, kind, dict(cls=cls, bits=d, event=src, group=group), '\n'.join(lines), [list(map(core._j, a)) for a in alts], [core._j(got), post])
    acc.outcome((op, alts[0][0][0], post[:12]))


def mir(alts):
    """Mirror an accept set computed on reversed data back to stored order."""
    return [(p, R(nb)) for p, nb in alts]


def mutators(bs, acc, d):
    L = len(d)
    rd = R(d)
    cls = ('BitArray', 'BitStream')[L % 2]
    acc.state((cls, d))
    ops = [('', "''"), ('0', "'0b0'"), ('1', "bitstring.Bits(bin='1')"), ('01', "'0b01'"), ('110', "bitstring.BitArray(bin='110')"),
           ('10', "FW('10')")]       # a length-limited window onto a longer file as the operand (see C03)
    for b, src in ops:
        rb = R(b)
        apply_mut(acc, bs, cls, d, 'append', f"s.append({src})", mir(M.append(rd, rb)))
        apply_mut(acc, bs, cls, d, 'prepend', f"s.prepend({src})", mir(M.prepend(rd, rb)))
        for p in P(L):
            apply_mut(acc, bs, cls, d, 'insert', f"s.insert({src}, {p})", mir(M.insert(rd, rb, p)))
            apply_mut(acc, bs, cls, d, 'overwrite', f"s.overwrite({src}, {p})", mir(M.overwrite(rd, rb, p)))
    for i in P(L):
        apply_mut(acc, bs, cls, d, 'delitem', f"del s[{i}]", mir(M.delitem(rd, i)))
        for kind, v, vsrc in (('int', 0, '0'), ('int', 1, '1'), ('bits', '1', "'0b1'"), ('bits', '10', "'0b10'"), ('int', 2, '2')):
            apply_mut(acc, bs, cls, d, 'setitem', f"s[{i}] = {vsrc}", mir(M.setitem_int(rd, i, (kind, R(v) if kind == 'bits' else v))))
    sl = list(dict.fromkeys([None, 0, 1, -1, L // 2, L, L + 1, L + 3, 2 * L + 1, -L - 1]))    # incl. bounds that overrun the ends by less / more than the length
    for a in sl:
        for b in sl:
            for c in (None, 1, -1, 2, -2, 3):
                apply_mut(acc, bs, cls, d, 'delslice', f"del s[{fmt_slice(a, b, c)}]", mir(M.delslice(rd, a, b, c)), group='neg' if (c or 1) < 0 else 'pos')
                for kind, v, vsrc in (('bits', '', "''"), ('bits', '1', "'0b1'"), ('bits', '01', "bitstring.Bits(bin='01')"), ('bits', '110', "'0b110'"), ('bits', '10', "FW('10')"), ('int', 0, '0'), ('int', 1, '1'), ('int', 2, '2')):
                    if kind == 'int' and c == -1:
                        continue      # UNSPECIFIED: integer assigned to a reversed slice - no encoding order is defined (see C03)
                    if kind == 'int' and c in (None, 1):
                        # the value is encoded msb-first in stored order into the selected field: mirror of the field, not of the digits
                        alts = M.setslice(rd, a, b, c, ('int', v))
                        width = len(rd[a:b:c])
                        if alts[0][0][0] == 'ok' and width:
                            enc = format(v, f'0{width}b')
                            l = list(rd)
                            l[a:b:c] = list(R(enc)) if (c or 1) > 0 else list(enc)
                            alts = [(alts[0][0], ''.join(l))] + alts[1:]
                        apply_mut(acc, bs, cls, d, 'setslice', f"s[{fmt_slice(a, b, c)}] = {vsrc}", mir(alts), group='int')
                        continue
                    apply_mut(acc, bs, cls, d, 'setslice', f"s[{fmt_slice(a, b, c)}] = {vsrc}", mir(M.setslice(rd, a, b, c, (kind, R(v) if kind == 'bits' else v))),
                              group='neg' if (c or 1) < 0 else 'pos')
    pforms = [('none', None, 'None')] + [('int', p, str(p)) for p in P(L)] + [('seq', sq, repr(sq)) for sq in ([0], [0, -1], [L], [1, 0], [])] + \
             [('seq', list(range(*r)), f"range({', '.join(map(str, r))})") for r in ((0, L, 2), (L + 1,), (-1, -L - 1, -1), (-2, 2), (L,), (1, L, 1))]
    for kind, pv, psrc in pforms:
        for v in (1, 0):
            apply_mut(acc, bs, cls, d, 'set', f"s.set({v}, {psrc})", mir(M.set_(rd, v, (kind, pv))), group='range' if psrc.startswith('range') else '')
        apply_mut(acc, bs, cls, d, 'invert', f"s.invert({psrc})", mir(M.invert(rd, (kind, pv))), group='range' if psrc.startswith('range') else '')
    wins = [None, 0, 1, -1, L // 2, L, L + 1]
    for a in wins:
        for b in wins:
            apply_mut(acc, bs, cls, d, 'reverse', f"s.reverse({a}, {b})", mir(M.reverse(rd, a, b)))
    for n in dict.fromkeys([-1, 0, 1, 2, L - 1, L, L + 1]):
        for (a, b) in [(None, None), (1, None), (None, -1), (1, -1), (2, 2), (L + 1, None), (0, 1)]:
            # rotations keep their direction relative to the most significant end; only the range is mirrored:
            # rol on stored bits within the mirrored range == ror on the reversed bits within the given range
            apply_mut(acc, bs, cls, d, 'rol', f"s.rol({n}, {a}, {b})", mir(M.rotate(rd, n, a, b, False)))
            apply_mut(acc, bs, cls, d, 'ror', f"s.ror({n}, {a}, {b})", mir(M.rotate(rd, n, a, b, True)))
    for o, osrc in (('0', "'0b0'"), ('1', "'0b1'"), ('01', "'0b01'"), ('11', "'0b11'"), ('', "''")):
        for nw, nsrc in (('', "''"), ('1', "'0b1'"), ('001', "'0b001'")):
            for (a, b) in [(None, None), (1, None), (None, -1), (1, -1)]:
                for cnt in (None, 1, 2):
                    apply_mut(acc, bs, cls, d, 'replace', f"s.replace({osrc}, {nsrc}, {a}, {b}, {cnt})", mir(M.replace(rd, R(o), R(nw), a, b, cnt, False)))
    # shifts keep their direction (not mirrored at all)
    for n in (0, 1, L, L + 1):
        apply_mut(acc, bs, cls, d, 'shift', f"s.__ilshift__({n}) is s", [((p[0], True) if p[0] == 'ok' else p, nb) for p, nb in M.ishift(d, n, True)])
        apply_mut(acc, bs, cls, d, 'shift', f"s.__irshift__({n}) is s", [((p[0], True) if p[0] == 'ok' else p, nb) for p, nb in M.ishift(d, n, False)])
    if L == 5:
        byteswaps(bs, acc)
        acc.sample(dict(cls=cls, bits=d, events="append/prepend/insert/overwrite/del/setitem/set/invert/reverse/rol/ror/replace with mirrored expectations"))


_bs_done = False


def byteswaps(bs, acc):
    """Ranged byteswap under lsb0 on byte-structured contents (run once per process)."""
    global _bs_done
    if _bs_done:
        return
    _bs_done = True
    for d in ('1011001000000001', '101100100000000111111111', '0101100100000000111111111', '10110010000000011', '1' * 8 + '0' * 8 + '10100101' + '00111100'):
        L = len(d)
        rd = R(d)
        for fmt, fsrc in ((None, 'None'), (0, '0'), (1, '1'), (2, '2'), ([1, 2], '[1, 2]'), ('h', "'h'"), ('bh', "'bh'"), (-1, '-1')):
            for (a, b) in [(None, None), (8, None), (0, 16), (1, None), (None, -1), (8, 8), (0, L + 1), (1, 17), (8, 24), (None, 8)]:
                for rep in (True, False):
                    apply_mut(acc, bs, 'BitArray', d, 'byteswap', f"s.byteswap({fsrc}, {a}, {b}, {rep})", mir(M.byteswap(rd, fmt, a, b, rep)))
        for (a, b) in [(8, None), (None, 8), (1, 9), (8, 16)]:
            apply_mut(acc, bs, 'BitStream', d, 'reverse', f"s.reverse({a}, {b})", mir(M.reverse(rd, a, b)))
            apply_mut(acc, bs, 'BitStream', d, 'rol', f"s.rol(3, {a}, {b})", mir(M.rotate(rd, 3, a, b, False)))


def search(bs, acc, d, byte):
    L = len(d)
    rd = R(d)
    cls = CLASSES[L % 4]
    s = getattr(bs, cls)(bin=d)
    acc.state((cls, d))
    pre = [f"s = {mk(cls, d)}"]
    pats = ['1', '0', '01', '11', '101', '000', ''] if not byte else ['1', '01', '11111111', '00000000', '10110010', '0000000011111111', '101']
    wm = ([None] + list(range(0, L + 2)) + [-1]) if not byte else [None, 0, 1, 7, 8, 9, 16, -1, -8, L, L + 1]
    for p in pats:
        po = bs.Bits(bin=p)
        rp = R(p)
        occ = S.occurrences(rd, rp)
        psrc = f"bitstring.Bits(bin={p!r})"
        for a in wm:
            for b in wm:
                win = S.window(L, a, b)
                for ba in (None, False, True):
                    eff = bool(ba)
                    for op, fn in (('find', S.find), ('rfind', S.rfind)):
                        exp = fn(rd, rp, win, eff, occ)
                        got = obs(lambda: getattr(s, op)(po, a, b, ba))
                        okk = int(exp[0] == 'ok')
                        acc.step(op, 1, nontrivial=okk, ok=okk, rej=1 - okk)
                        if got != exp:
                            acc.violation(op, vkind(exp, got), dict(cls=cls, bits=d if L < 70 else f'{L} bits', pat=p, start=a, end=b, ba=ba, group='aligned' if eff else ''),
                                          snip(pre, f"s.{op}({psrc}, {a}, {b}, {ba})", exp), exp, got)
                    for cnt in ((None, 0, 1, 2) if ba is not False else (None,)):
                        exp = S.findall(rd, rp, win, eff, cnt, occ)
                        got = obs(lambda: list(s.findall(po, a, b, cnt, ba)))
                        okk = int(exp[0] == 'ok')
                        acc.step('findall', 1, nontrivial=okk, ok=okk, rej=1 - okk)
                        if got != exp:
                            acc.violation('findall', vkind(exp, got), dict(cls=cls, bits=d if L < 70 else f'{L} bits', pat=p, start=a, end=b, ba=ba, count=cnt,
                                                                          group=('aligned' if eff else '') + ('+count' if cnt is not None else '')),
                                          snip(pre, f"list(s.findall({psrc}, {a}, {b}, {cnt}, {ba}))", exp), exp, got)
                for op, fn in (('startswith', S.startswith), ('endswith', S.endswith)):
                    exp = fn(rd, rp, win)
                    got = obs(lambda: getattr(s, op)(po, a, b))
                    okk = int(exp[0] == 'ok')
                    acc.step(op, 1, nontrivial=okk, ok=okk, rej=1 - okk)
                    if got != exp:
                        acc.violation(op, vkind(exp, got), dict(cls=cls, bits=d if L < 70 else f'{L} bits', pat=p, start=a, end=b), snip(pre, f"s.{op}({psrc}, {a}, {b})", exp), exp, got)
        acc.outcome(('search', d[:16], p))
    for a in wm[:8]:
        for b in wm[:8]:
            win = S.window(L, a, b)
            for nb in (1, 2, 3, 8):
                for cnt in (None, 1, 2):
                    e = S.cut(rd, nb, win, cnt)
                    exp = ('ok', [R(x) for x in e[1]]) if e[0] == 'ok' else e
                    got = obs(lambda: [x.bin for x in s.cut(nb, a, b, cnt)])
                    okk = int(exp[0] == 'ok')
                    acc.step('cut', 1, nontrivial=okk, ok=okk, rej=1 - okk)
                    if got != exp:
                        acc.violation('cut', vkind(exp, got), dict(cls=cls, bits=d if L < 70 else f'{L} bits', n=nb, start=a, end=b, count=cnt),
                                      snip(pre, f"[x.bin for x in s.cut({nb}, {a}, {b}, {cnt})]", exp), exp, got)
    if s.bin != d:
        acc.violation('find', 'frame', dict(cls=cls, bits=d), "# searching changed the data\nassert False", d, s.bin)
    if L == 7:
        acc.sample(dict(cls=cls, bits=d, event="s.find(Bits(bin='01'), 1, None, True) under lsb0 == find on reversed data with reversed pattern"))


def long_search(bs, acc, L, seed):
    """Data long enough to cross the chunking of the reverse scan."""
    for d in families.edge(L, seed, full=False)[2:7]:
        rd = R(d)
        s = bs.Bits(bin=d)
        acc.state(('long', L, d[:24]))
        for p in ('1', '01', '0110', '10110010', '0000000000000001', '1' * 9):
            rp = R(p)
            occ = S.occurrences(rd, rp)
            po = bs.Bits(bin=p)
            for (a, b) in [(None, None), (1, None), (None, -1), (9, L - 9), (8191, None), (None, 8192), (L - 8200 if L > 8200 else 0, None)]:
                win = S.window(L, a, b)
                for ba in (None, True):
                    for cnt in (None, 1, 3):
                        exp = S.findall(rd, rp, win, bool(ba), cnt, occ)
                        got = obs(lambda: list(s.findall(po, a, b, cnt, ba)))
                        acc.step('findall', 1, nontrivial=1, ok=1)
                        if got != exp:
                            e_, g_ = (exp[1][:5], len(exp[1])) if exp[0] == 'ok' else exp, (got[1][:5], len(got[1])) if got[0] == 'ok' else got
                            acc.violation('findall', 'value', dict(bits=f'{L} bits', pat=p, start=a, end=b, ba=ba, count=cnt, group='long'),
                                          '\n'.join(PRE + [f"d = {d[:64]!r} * {L // 64} + {d[L - L % 64:]!r}" if d[:64] * (L // 64) + d[L - L % 64:] == d else f"d = {d!r}", "s = bitstring.Bits(bin=d)", "rd = d[::-1]",
                                                           f"p = {p!r}", "n = len(p)", f"a, b = {win!r}",
                                                           f"ref = [i for i in range(a, b - n + 1) if rd[i:i + n] == p[::-1] and (not {bool(ba)} or i % 8 == 0)]" + (f"[:{cnt}]" if cnt is not None else ""),
                                                           f"r = list(s.findall(bitstring.Bits(bin=p), {a}, {b}, {cnt}, {ba}))", "assert r == ref, (r[:5], ref[:5], len(r), len(ref))"]), e_, g_)
                    for op, fn in (('find', S.find), ('rfind', S.rfind)):
                        exp = fn(rd, rp, win, bool(ba), occ)
                        got = obs(lambda: getattr(s, op)(po, a, b, ba))
                        acc.step(op, 1, nontrivial=1, ok=1)
                        if got != exp:
                            acc.violation(op, 'value', dict(bits=f'{L} bits', pat=p, start=a, end=b, ba=ba, group='long'), "# long-data lsb0 find differs from the mirrored reference\nassert False", exp, got)
        acc.outcome(('long', L))
    acc.sample(dict(L=L, event="findall over data longer than the 8192-bit reverse-scan chunk, windows and counts"))


def streams(bs, acc):
    """read / peek / readlist / unpack / pack order under lsb0 (streams start at pos 0)."""
    for d in list(families.all_bits(6))[1:] + ['10110010', '1011001000000001', '10110010000000011']:
        L = len(d)
        rd = R(d)
        acc.state(('stream', d))
        for cls in STREAMS:
            # successive reads of n bits take positions [pos, pos+n) in lsb0 numbering: the field is R(rd[pos:pos+n])
            for sizes in ([1], [2], [1, 2], [3, 1], [L], [L + 1], [0, 1], [2, 2, 2]):
                s = getattr(bs, cls)(bin=d)
                pos = 0
                exp = []
                good = True
                for n in sizes:
                    if pos + n > L:
                        exp.append('ReadError')
                        break
                    exp.append(R(rd[pos:pos + n]))
                    pos += n
                got = []
                for n in sizes:
                    r = obs(lambda: s.read(n).bin)
                    got.append(r[1])
                    if r[0] == 'exc':
                        break
                acc.step('read', 1, nontrivial=1, ok=1)
                if got != exp or s.pos != pos:
                    acc.violation('read', 'value', dict(cls=cls, bits=d, sizes=sizes), '\n'.join(PRE + [f"s = {mk(cls, d)}", "out = []", f"for n in {sizes!r}:", "    try:", "        out.append(s.read(n).bin)",
                                                                                                         "    except bitstring.ReadError:", "        out.append('ReadError'); break",
                                                                                                         f"assert (out, s.pos) == ({exp!r}, {pos}), (out, s.pos)"]), (exp, pos), (got, s.pos))
            for fmt, widths in (('u2, u3', [2, 3]), ('u1, bin2', [1, 2]), ('hex4, u2', [4, 2]), ('2*u2', [2, 2]), ('i3', [3]), ('bool, u2', [1, 2])):
                if sum(widths) > L:
                    continue
                s = getattr(bs, cls)(bin=d)
                exp = []
                pos = 0
                for tok, w in zip([t.strip() for t in fmt.replace('2*u2', 'u2, u2').split(',')], widths):
                    field = R(rd[pos:pos + w])
                    pos += w
                    if tok.startswith('u'):
                        exp.append(int(field, 2))
                    elif tok.startswith('i'):
                        v = int(field, 2)
                        exp.append(v - (1 << w) if field[0] == '1' else v)
                    elif tok.startswith('bin'):
                        exp.append(field)
                    elif tok.startswith('hex'):
                        exp.append(format(int(field, 2), 'x'))
                    elif tok == 'bool':
                        exp.append(field == '1')
                for op, th, src in (('unpack', lambda: s.unpack(fmt), f"s.unpack({fmt!r})"), ('unpack', lambda: s.peeklist(fmt), f"s.peeklist({fmt!r})"),
                                    ('read', lambda: s.readlist(fmt), f"s.readlist({fmt!r})")):
                    got = obs(th)
                    acc.step(op, 1, nontrivial=1, ok=1)
                    if got != ('ok', exp):
                        acc.violation(op, vkind(('ok', exp), got), dict(cls=cls, bits=d, fmt=fmt), snip([f"s = {mk(cls, d)}"], src, ('ok', exp)), exp, got)
                # pack is the inverse: the first token occupies the lowest-numbered (least significant) positions
                vals = exp
                got = obs(lambda: bs.pack(fmt, *vals).bin)
                e = d[L - sum(widths):]
                acc.step('pack', 1, nontrivial=1, ok=1)
                if got != ('ok', e):
                    acc.violation('pack', vkind(('ok', e), got), dict(fmt=fmt, values=repr(vals)), snip([], f"bitstring.pack({fmt!r}, *{vals!r}).bin", ('ok', e)), e, got)
        acc.outcome(('stream', d))
    acc.sample(dict(event="BitStream(bin=d).read(2) then read(3) under lsb0 take bits [0,2) and [2,5) counted from the least significant end"))


WHOLE_EXPRS = dict(tobytes="o.tobytes()", hash="hash(o)", eq="o == bitstring.Bits(bin=o.bin)", shl="(o << 1).bin", shr="(o >> 2).bin", inv="(~o).bin",
                   **{'and': "(o & o).bin"}, add="(o + '0b1').bin", addlong="(o + ('0b' + '10' * len(o) + '1')).bin", addlongbits="(o + bitstring.BitArray(bin='01' * len(o) + '110')).bin",
                   raddshort="('0b1' + o).bin", bitsaddo="(bitstring.Bits(bin='1') + o).bin", iadd="(lambda m: (m.__iadd__('0b' + '10' * len(o) + '1'), m.bin)[1])(bitstring.BitArray(o))" if False else "(bitstring.BitArray(o) + o + o).bin",
                   joined="bitstring.Bits().join([o, '0b1', o]).bin", mul="(o * 2).bin", count="o.count(1)", str="str(o)",
                   build="type(o)(uint=5, length=8).bin", tofile="TOFILE(o)", bytes_="bytes(o)", tobitarray="o.tobitarray().to01()",
                   dictkey="{o: 1}.get(bitstring.Bits(bin=o.bin)) if type(o).__hash__ else None", copy="o.copy().bin", whole_slice="o[:].bin")
WHOLE_PRE = """import os, io
os.environ['BITSTRING_VERIF'] = '1'; os.environ['BITSTRING_VERIF_TOFILE_CHUNK_BITS'] = '16'
import bitstring
def TOFILE(o):
    f = io.BytesIO(); o.tofile(f); return f.getvalue()
def _c(v):
    return ('nan' if v != v else v.hex()) if isinstance(v, float) else v
"""


def TOFILE(o):
    import io
    f = io.BytesIO()
    o.tofile(f)
    return f.getvalue()


def whole(bs, acc):
    """Whole-value interpretations, ==, hash, len, bin, tobytes, tofile (across its chunk boundary) are identical in both modes."""
    import os
    os.environ['BITSTRING_VERIF_TOFILE_CHUNK_BITS'] = '16'
    try:
        _whole(bs, acc)
    finally:
        os.environ.pop('BITSTRING_VERIF_TOFILE_CHUNK_BITS', None)


def _whole(bs, acc):
    from .. import bfs
    props = ['uint', 'int', 'hex', 'oct', 'bin', 'bytes', 'uintbe', 'uintle', 'intle', 'float', 'floatle', 'bfloat', 'bool', 'len', 'p4binary', 'e2m1mxfp']
    exprs = {p: f"_c(o.{p})" for p in props}
    exprs.update(WHOLE_EXPRS)
    ns = dict(bitstring=bs, TOFILE=TOFILE, _c=_c)
    longs = []
    for L in (1999, 2000, 2001, 2500, 4003):
        longs += families.edge(L, 0, full=False)[2:5]
    for d in list(families.all_bits(8)) + ['1011001000000001', '0' * 31 + '1', '01' * 32, '110' * 13] + longs:
        acc.state(('whole', d[:40], len(d)))
        for cls in (CLASSES[len(d) % 4],) if len(d) < 100 else ('Bits', 'BitStream'):
            core.set_options(lsb0=False)
            o = getattr(bs, cls)(bin=d)
            ref = {k: bfs.run_src(dict(ns, o=o), e) for k, e in exprs.items()}
            core.set_options(lsb0=True)
            o2 = getattr(bs, cls)(bin=d)
            got = {k: bfs.run_src(dict(ns, o=o2), e) for k, e in exprs.items()}
            got_old = {k: bfs.run_src(dict(ns, o=o), e) for k, e in exprs.items()}       # an object built before the switch
            for k in ref:
                acc.step('whole', 2, nontrivial=2 * int(ref[k][0] == 'ok'), ok=2 * int(ref[k][0] == 'ok'), rej=2 * int(ref[k][0] != 'ok'))
                if got[k] != ref[k] or got_old[k] != ref[k]:
                    acc.violation('whole', 'value', dict(cls=cls, bits=d if len(d) < 70 else f'{len(d)} bits', what=k, group=k),
                                  '\n'.join([WHOLE_PRE, f"o = {mk(cls, d)}", f"x = {exprs[k]}", "bitstring.options.lsb0 = True", f"y = {exprs[k]}", f"o = {mk(cls, d)}",
                                             f"z = {exprs[k]}", "assert repr(x) == repr(y) == repr(z), (str(x)[:80], str(y)[:80], str(z)[:80])"]),
                                  ref[k], got[k] if got[k] != ref[k] else got_old[k])
        acc.outcome(('whole', d[:8], len(d)))
    acc.sample(dict(event="every whole-value property, ==, hash, dict lookup, len, bin, tobytes, tofile (16-bit chunks), shifts, ~, &, +, * equal in msb0 and lsb0; "
                          "lengths <= 8 and 1999..4003"))


def _c(v):
    if isinstance(v, float):
        return 'nan' if v != v else v.hex()
    return v


TOGGLE_CALLS = [
    ("find", "s.find('0b1')"), ("rfind", "s.rfind('0b1')"), ("findall", "list(s.findall('0b01'))"), ("ror", "(m.ror(1, 1), m.bin)[1]"), ("rol", "(m.rol(2), m.bin)[1]"),
    ("append", "(m.append('0b1'), m.bin)[1]"), ("prepend", "(m.prepend('0b0'), m.bin)[1]"), ("getitem", "s[0]"), ("slice", "s[1:3].bin"), ("stepslice", "s[::2].bin"),
    ("setitem", "(m.__setitem__(0, 1), m.bin)[1]"), ("delitem", "(m.__delitem__(1), m.bin)[1]"), ("invert", "(m.invert(0), m.bin)[1]"), ("set", "(m.set(1, [1]), m.bin)[1]"),
    ("read", "bitstring.ConstBitStream(s).read(3).bin"), ("pack", "bitstring.pack('u2, u4', 1, 2).bin"), ("startswith", "s.startswith('0b1')"), ("cut", "[x.bin for x in s.cut(3)]"),
]


def toggles(bs, acc, depth):
    """After any toggle sequence the result of a call depends only on the option value in force at the call."""
    d = '0010110'
    from ..bfs import run_src
    # reference tables computed in a never-toggled state for off, and a once-toggled state for on (itself checked by the mirror tests above)
    table = {}
    for mode in (False, True):
        for name, src in TOGGLE_CALLS:
            core.set_options(lsb0=mode)
            ns = dict(bitstring=bs, s=bs.Bits(bin=d), m=bs.BitArray(bin=d))
            r = run_src(ns, src)
            table[(name, mode)] = r
    core.set_options(lsb0=False)
    events = [('toggle', None)] + TOGGLE_CALLS
    n = 0
    for k in range(1, depth + 1):
        for hist in itertools.product(range(len(events)), repeat=k):
            if k > 1 and 0 not in hist:
                continue          # without a toggle the history is the never-toggled baseline (covered for k == 1)
            core.set_options(lsb0=False)
            mode = False
            for idx in hist:
                name, src = events[idx]
                if name == 'toggle':
                    mode = not mode
                    bs.options.lsb0 = mode
                    continue
                ns = dict(bitstring=bs, s=bs.Bits(bin=d), m=bs.BitArray(bin=d))
                r = run_src(ns, src)
                n += 1
                if r != table[(name, mode)]:
                    seq = [events[i][0] for i in hist]
                    acc.violation('toggle', 'value', dict(history=seq, call=name, lsb0=mode, group=name),
                                  '\n'.join(["import bitstring", f"d = {d!r}", "def run(src):", "    ns = dict(bitstring=bitstring, s=bitstring.Bits(bin=d), m=bitstring.BitArray(bin=d))", "    return eval(src, ns)",
                                             f"bitstring.options.lsb0 = {mode}", f"ref = run({src!r})", "bitstring.options.lsb0 = False"] +
                                            [("bitstring.options.lsb0 = not bitstring.options.lsb0" if events[i][0] == 'toggle' else f"last = run({events[i][1]!r})") for i in hist] +
                                            ["assert last == ref, (last, ref)"]), table[(name, mode)], r)
                    break
            acc.state(('toggle', hist))
    # other spellings of the switch: a truthy / falsy value that is not a bool, and the module-level attribute
    for label, on, off in (('int', "bitstring.options.lsb0 = 1", "bitstring.options.lsb0 = 0"), ('module-attr', "bitstring.lsb0 = True", "bitstring.lsb0 = False"),
                           ('str', "bitstring.options.lsb0 = 'yes'", "bitstring.options.lsb0 = ''")):
        for name, src in TOGGLE_CALLS:
            core.set_options(lsb0=False)
            for mode, setter in ((True, on), (False, off), (True, on)):
                run_src(dict(bitstring=bs), setter)
                ns = dict(bitstring=bs, s=bs.Bits(bin=d), m=bs.BitArray(bin=d))
                r = run_src(ns, src)
                flag = bs.options.lsb0
                n += 1
                if r != table[(name, mode)] or flag is not mode:
                    acc.violation('toggle', 'value', dict(spelling=label, call=name, lsb0=mode, group=f'{label}|{name}'),
                                  '\n'.join(["import bitstring", f"d = {d!r}", "def run(src):", "    ns = dict(bitstring=bitstring, s=bitstring.Bits(bin=d), m=bitstring.BitArray(bin=d))", "    return eval(src, ns)",
                                             f"bitstring.options.lsb0 = {mode}", f"ref = run({src!r})", "bitstring.options.lsb0 = False", on] + ([off, on] if False else []) +
                                            ([] if mode else [off]) + [f"last = run({src!r})", f"assert last == ref and bitstring.options.lsb0 is {mode}, (last, ref, bitstring.options.lsb0)"]),
                                  table[(name, mode)], (r, flag))
                    break
        acc.state(('toggle-spelling', label))
    core.set_options(lsb0=False)
    acc.step('toggle', n, nontrivial=n, ok=n)
    acc.outcome(('toggle', depth))
    core.set_options(lsb0=False)
    acc.sample(dict(event=f"all sequences of <= {depth} events over toggle + {len(TOGGLE_CALLS)} calls; each call compared with the table for the option value in force"))
