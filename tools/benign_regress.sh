#!/bin/bash
# usage: tools/benign_regress.sh [pattern]  - re-run ALL quick checks against every kept behaviour-preserving patch applied to /repo HEAD
# (scratch worktree, BSMC_REPO; /repo and the committed evidence untouched). Expected: every run exits 0. A patch that no longer applies
# to HEAD (a later repair touched the same lines) is tried with a 3-way merge and otherwise reported as SKIP.
pat=${1:-}
cd "$(dirname "$0")/.."
wt=/tmp/benignregwt-$$
git -C /repo worktree add -q --detach $wt HEAD || exit 2
trap 'git -C /repo worktree remove --force $wt >/dev/null 2>&1; rm -rf /tmp/benignreg-ev-$$' EXIT
silent=0; alarm=0; skip=0
for d in benign/*${pat}*/; do
  name=$(basename $d)
  [ -f $d/patch.diff ] || continue
  git -C $wt reset -q --hard HEAD
  if ! git -C $wt apply --check $PWD/$d/patch.diff 2>/dev/null; then
    if ! git -C $wt apply --3way $PWD/$d/patch.diff >/dev/null 2>&1 || grep -rq '^<<<<<<<' $wt/bitstring; then echo "SKIP $name (patch no longer applies to HEAD)"; skip=$((skip+1)); continue; fi
  else
    git -C $wt apply $PWD/$d/patch.diff
  fi
  bad=""
  for i in $(seq -w 1 20); do
    out=$(BSMC_REPO=$wt BSMC_EVIDENCE_DIR=/tmp/benignreg-ev-$$ nice -n 5 ./check C$i quick 2>&1); rc=$?
    if [ $rc -ne 0 ]; then bad="$bad C$i:$rc"; echo "$out" | grep -A1 '^VIOLATION\|^HARNESS' | head -6; fi
  done
  if [ -z "$bad" ]; then silent=$((silent+1)); echo "SILENT $name"; else alarm=$((alarm+1)); echo "ALARM $name:$bad"; fi
done
echo "benign regression: silent=$silent alarm=$alarm skipped=$skip"
