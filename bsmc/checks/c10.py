"""C10 - exponential-Golomb codes: exact codewords, self-delimiting streams (product explorer).

encode side: state = (kind, integer)           event = creation route
decode side: state = (bit string, pos)         event = read | peek | unpack | readlist | whole-bitstring property | Dtype.parse
sequences  : state = list of (kind, value)     event = read back step by step / unpack in one go
oracle = bsmc.models.golomb (written from the H.264 / Dirac definitions, self-tested against the doc tables).
"""
from __future__ import annotations

import itertools

from .. import core, families
from ..models import golomb as G
from ..util import CLASSES, obs, vkind, snippet, exc_is

PROPERTY = 'C10'
VACUITY = dict(need_ok=['encode', 'read', 'peek', 'property', 'parse', 'unpack', 'sequence'],
               need_rej=['encode', 'read', 'property', 'parse'], min_outcomes=100)


def describe(tier):
    q = tier == 'quick'
    return dict(bounds=dict(encode_window=10000 if q else 1000000, powers='+-(2**k + d), k <= 200, d in -2..2',
                            decoder_inputs='every bit string of length <= %d, at pos 0 and after 1, 3, 8, 9 junk bits (length <= %d)' % ((15, 10) if q else (20, 15)),
                            decoder_inputs_bytealigned_option='every bit string of length <= %d at pos 0 and 3 with options.bytealigned = True' % (10 if q else 13),
                            sequences='every sequence of <= %d codewords of mixed kinds with values in [-3, 4]' % (3 if q else 4),
                            truncation='every proper prefix of every codeword for |v| <= 40; every codeword + 1..2 extra bits',
                            routes=['Cls(ue=v)', "Cls('ue=v')", 'x.ue = v', "Dtype('ue').build(v)", "pack('ue', v)", "pack('ue=v')"]),
                rule='each (state, event) executed once; non-trivial = the model yields a value (complete codeword / in-domain integer)',
                assumptions=['reference codecs written from the standards, self-tested against doc/exp-golomb.rst tables'])


def selftest():
    G.selftest()


def shards(tier, seed):
    q = tier == 'quick'
    W = 10000 if q else 1000000
    out = []
    vals = list(range(-W, W + 1))
    for part in families.chunk(vals, 32):
        out.append(dict(kind='enc', lo=part[0], hi=part[-1]))
    out.append(dict(kind='encbig'))
    n = 15 if q else 20
    for L in range(0, n + 1):
        if L <= 10:
            out.append(dict(kind='dec', L=L, lo=0, hi=1 << L))
        else:
            step = 1 << 10
            for lo in range(0, 1 << L, step):
                out.append(dict(kind='dec', L=L, lo=lo, hi=lo + step))
    out.append(dict(kind='junk', n=10 if q else 15))
    out.append(dict(kind='dec-ba', n=10 if q else 13))
    words = [(k, v) for k in G.KINDS for v in range(-3, 5) if not (v < 0 and k in G.UNSIGNED)]
    for part in families.chunk(words, len(words)):
        out.append(dict(kind='seq', first=part, depth=3 if q else 4))
    out.append(dict(kind='trunc'))
    return out


def run_shard(shard, acc):
    bs = core.import_bitstring()
    with core.watchdog(1500):
        k = shard['kind']
        if k == 'enc':
            for v in range(shard['lo'], shard['hi'] + 1):
                encode_all(bs, acc, v, routes_full=(abs(v) <= 300))
        elif k == 'encbig':
            for e in range(2, 201):
                for d in (-2, -1, 0, 1, 2):
                    for sgn in (1, -1):
                        encode_all(bs, acc, sgn * ((1 << e) + d), routes_full=(e % 16 == 0))
        elif k == 'dec':
            L = shard['L']
            for v in range(shard['lo'], shard['hi']):
                decode_all(bs, acc, format(v, f'0{L}b') if L else '', 0)
        elif k == 'dec-ba':
            # decoding is not a search: options.bytealigned must make no difference
            core.set_options(bytealigned=True)
            try:
                for d in families.all_bits(shard['n']):
                    decode_all(bs, acc, d, 0, ba=True)
                    if len(d) >= 3:
                        decode_all(bs, acc, '101' + d, 3, ba=True)
            finally:
                core.set_options()
        elif k == 'junk':
            for d in families.all_bits(shard['n']):
                for j in (1, 3, 8, 9):
                    decode_all(bs, acc, ('10110100101'[:j]) + d, j)
        elif k == 'seq':
            sequences(bs, acc, shard)
        elif k == 'trunc':
            truncation(bs, acc)


ROUTES = [
    ('kw', lambda bs, cls, k, v: getattr(bs, cls)(**{k: v}), "bitstring.{cls}({k}={v})"),
    ('token', lambda bs, cls, k, v: getattr(bs, cls)(f'{k}={v}'), "bitstring.{cls}('{k}={v}')"),
    ('build', lambda bs, cls, k, v: bs.Dtype(k).build(v), "bitstring.Dtype('{k}').build({v})"),
    ('pack', lambda bs, cls, k, v: bs.pack(k, v), "bitstring.pack('{k}', {v})"),
    ('packtok', lambda bs, cls, k, v: bs.pack(f'{k}={v}'), "bitstring.pack('{k}={v}')"),
    ('setattr', lambda bs, cls, k, v: _setattr(bs, k, v), "(lambda x: (setattr(x, '{k}', {v}), x)[1])(bitstring.BitArray('0b101'))"),
    ('fromstring', lambda bs, cls, k, v: getattr(bs, cls).fromstring(f'{k}={v}'), "bitstring.{cls}.fromstring('{k}={v}')"),
]


def _setattr(bs, k, v):
    x = bs.BitArray('0b101')
    setattr(x, k, v)
    return x


def encode_all(bs, acc, v, routes_full):
    for ki, k in enumerate(G.KINDS):
        acc.state(('enc', k, v))
        if v < 0 and k in G.UNSIGNED:
            exp = ('exc', 'ValueError')
        else:
            exp = ('ok', G.ENC[k](v))
        ok_ = int(exp[0] == 'ok')
        routes = ROUTES if routes_full else (ROUTES[0], ROUTES[1 + (abs(v) + ki) % (len(ROUTES) - 1)])
        for rname, fn, src in routes:
            cls = CLASSES[(abs(v) + ki) % 4]
            got = obs(lambda: fn(bs, cls, k, v), lambda r: r.bin)
            acc.step('encode', 1, nontrivial=ok_, ok=ok_, rej=1 - ok_)
            if not (got == exp or (exp[0] == 'exc' and exc_is(got, 'ValueError'))):
                acc.violation('encode', vkind(exp, got), dict(kind=k, value=v if abs(v) < 1 << 64 else str(v), route=rname, cls=cls),
                              snippet([], src.format(cls=cls, k=k, v=v), exp, conv="lambda r: r.bin"), exp, got)
        if ok_ and routes_full:
            # history: encode into a mutable owner, mutate it, encode the same value again (a shared codeword store would show)
            for rname, fn, src in (ROUTES[5], ROUTES[0], ROUTES[1], ROUTES[3]):
                try:
                    x = fn(bs, 'BitStream' if rname != 'setattr' else 'BitArray', k, v)
                    x.append('0b0101')
                    x.invert()
                except Exception:  # noqa: BLE001 - already reported above
                    continue
                again = obs(lambda: bs.Bits(**{k: v}).bin)
                acc.step('encode', 1, nontrivial=1, ok=1)
                if again != exp:
                    acc.violation('encode', 'value', dict(kind=k, value=v, route=rname, group='after-mutating-earlier-result'),
                                  '\n'.join(["import bitstring", f"x = {src.format(cls='BitStream', k=k, v=v)}", "x.append('0b0101'); x.invert()",
                                             f"assert bitstring.Bits({k}={v}).bin == {exp[1]!r}, bitstring.Bits({k}={v}).bin"]), exp, again)
        if ok_:
            acc.outcome(('enc', k, exp[1][:40]))
            # decode it back through the property (exactly one codeword)
            b = bs.Bits(bin=exp[1])
            got = obs(lambda: getattr(b, k))
            acc.step('property', 1, nontrivial=1, ok=1)
            if got != ('ok', v):
                acc.violation('property', vkind(('ok', v), got), dict(kind=k, value=str(v)),
                              snippet([], f"bitstring.Bits(bin={exp[1]!r}).{k}", ('ok', v)), v, got)
    acc.sample(dict(event=f"Bits(se={v}).bin; Bits('uie={abs(v)}').bin"))


def decode_all(bs, acc, d, pos, ba=False):
    acc.state(('dec', d, pos, ba))
    for ki, k in enumerate(G.KINDS):
        m = G.DEC[k](d, pos)
        cls = ('ConstBitStream', 'BitStream')[(len(d) + ki) % 2]
        s = getattr(bs, cls)(bin=d, pos=pos)
        pre = (["bitstring.options.bytealigned = True"] if ba else []) + [f"s = bitstring.{cls}(bin={d!r}, pos={pos})"]
        if m is None:
            exp = ('exc', 'ReadError')
            epos = pos
        else:
            exp = ('ok', m[0])
            epos = pos + m[1]
        ok_ = int(m is not None)
        acc.outcome((k, m))
        # peek then read
        for op, e_after in (('peek', pos), ('read', epos)):
            got = obs(lambda: getattr(s, op)(k))
            acc.step(op, 1, nontrivial=ok_, ok=ok_, rej=1 - ok_)
            good = (got == exp) if ok_ else (got == ('exc', 'ReadError'))
            if not good or s.pos != e_after:
                acc.violation(op, vkind(exp, got) if not good else 'state', dict(kind=k, data=d, pos=pos, group='pos' if good else ''),
                              snippet(pre, f"(s.{op}({k!r}), s.pos)", ('ok', (m[0], e_after))) if ok_ else
                              '\n'.join(["import bitstring"] + pre + ["try:", f"    r = s.{op}({k!r})", "except bitstring.ReadError:", f"    assert s.pos == {pos}, s.pos",
                                                                   "else:", "    assert False, r"]), (exp, e_after), (got, s.pos))
            s.pos = pos
        if pos == 0:
            # whole-bitstring property / Dtype.parse: exactly one codeword, nothing else
            if m is not None and m[1] == len(d):
                e2 = ('ok', m[0])
            else:
                e2 = ('exc', 'ValueError')
            ok2 = int(e2[0] == 'ok')
            for op, th, src in (('property', lambda: getattr(s, k), f"s.{k}"), ('parse', lambda: bs.Dtype(k).parse(s), f"bitstring.Dtype({k!r}).parse(s)")):
                got = obs(th)
                acc.step(op, 1, nontrivial=ok2, ok=ok2, rej=1 - ok2)
                if not (got == e2 or (e2[0] == 'exc' and exc_is(got, 'ValueError'))):
                    acc.violation(op, vkind(e2, got), dict(kind=k, data=d, group='extra' if m is not None else 'trunc'), snippet(pre, src, e2), e2, got)
            # unpack reads the first codeword
            got = obs(lambda: s.unpack(k))
            e3 = ('ok', [m[0]]) if m is not None else ('exc', 'ReadError')
            acc.step('unpack', 1, nontrivial=ok_, ok=ok_, rej=1 - ok_)
            if got != e3:
                acc.violation('unpack', vkind(e3, got), dict(kind=k, data=d), snippet(pre, f"s.unpack({k!r})", e3), e3, got)
    if len(d) == 8:
        acc.sample(dict(bits=d, pos=pos, event="s.peek('ue'); s.read('ue'); s.se; Dtype('uie').parse(s); s.unpack('sie')"))


def sequences(bs, acc, shard):
    words = [(k, v) for k in G.KINDS for v in range(-3, 5) if not (v < 0 and k in G.UNSIGNED)]
    depth = shard['depth']
    for first in shard['first']:
        for n in range(1, depth + 1):
            for rest in itertools.product(words, repeat=n - 1):
                seq = (tuple(first),) + rest
                bits = ''.join(G.ENC[k](v) for k, v in seq)
                acc.state(('seq', seq))
                # built by joining tokens
                tok = ', '.join(f'{k}={v}' for k, v in seq)
                fmt = ', '.join(k for k, _ in seq)
                vals = [v for _, v in seq]
                b = obs(lambda: bs.BitStream(tok).bin)
                acc.step('sequence', 1, nontrivial=1, ok=1)
                if b != ('ok', bits):
                    acc.violation('sequence', vkind(('ok', bits), b), dict(seq=tok, what='build'), snippet([], f"bitstring.BitStream({tok!r}).bin", ('ok', bits)), bits, b)
                    continue
                s = bs.BitStream(bin=bits)
                # step by step: pos advances by exactly one codeword each time
                p = 0
                okk = True
                for k, v in seq:
                    got = obs(lambda: s.read(k))
                    p += len(G.ENC[k](v))
                    if got != ('ok', v) or s.pos != p:
                        okk = False
                        break
                acc.step('sequence', 1, nontrivial=1, ok=1)
                if not okk:
                    acc.violation('sequence', 'value', dict(seq=tok, what='read'),
                                  '\n'.join(["import bitstring", f"s = bitstring.BitStream(bin={bits!r})", "out = []",
                                             f"for k in {[k for k, _ in seq]!r}:", "    out.append((s.read(k), s.pos))",
                                             f"assert out == {list(zip(vals, itertools.accumulate(len(G.ENC[k](v)) for k, v in seq)))!r}, out"]), vals, got)
                s.pos = 0
                for op, th, src in (('unpack', lambda: s.unpack(fmt), f"s.unpack({fmt!r})"), ('readlist', lambda: s.readlist(fmt), f"s.readlist({fmt!r})"),
                                    ('pack', lambda: bs.pack(fmt, *vals).bin, None)):
                    got = obs(th)
                    exp = ('ok', bits) if op == 'pack' else ('ok', vals)
                    acc.step('sequence', 1, nontrivial=1, ok=1)
                    if got != exp or (op == 'readlist' and s.pos != len(bits)):
                        acc.violation('sequence', vkind(exp, got), dict(seq=tok, what=op),
                                      snippet([f"s = bitstring.BitStream(bin={bits!r})"], src or f"bitstring.pack({fmt!r}, *{vals!r}).bin", exp), exp, got)
    acc.sample(dict(event="BitStream('ue=3, sie=-2, se=1') then read('ue'), read('sie'), read('se') with pos checked after each"))


def truncation(bs, acc):
    for k in G.KINDS:
        for v in range(-40, 41):
            if v < 0 and k in G.UNSIGNED:
                continue
            c = G.ENC[k](v)
            for i in range(len(c)):
                decode_all(bs, acc, c[:i], 0)
            for extra in ('0', '1', '00', '01', '10', '11'):
                decode_all(bs, acc, c + extra, 0)
            # after junk at a non-zero position
            decode_all(bs, acc, '0110' + c, 4)
            decode_all(bs, acc, '0110' + c[:-1], 4)
