#!/bin/bash
cd "$(dirname "$0")/.."
for p in C01 C02 C04 C05 C06 C07 C08 C09 C10 C11 C12 C13 C14 C15 C16 C17 C18 C19 C20; do
  s=$(date +%s); out=$(timeout 3600 ./check $p thorough 2>&1); rc=$?; e=$(date +%s)
  echo "$p exit=$rc wall=$((e-s))s $(echo "$out" | tail -1)"
  echo "$out" | grep '^VIOLATION\|^HARNESS' | head -3
done
