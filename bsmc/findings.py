"""Predicates for the open entries of known_findings.json.

A predicate sees one violation record (property, op, kind, detail) and says whether it is the
listed defect. Predicates are deliberately narrow - operation, argument class and deviation kind -
so that a different failure of the same property is still reported as a VIOLATION.
"""
from __future__ import annotations

PREDICATES = {}   # finding id -> (property, predicate)


def finding(fid, prop):
    def deco(fn):
        PREDICATES[fid] = (prop, fn)
        return fn
    return deco


_open = None


def _open_ids():
    global _open
    if _open is None:
        from . import core
        _open = {k['id'] for k in core.load_known() if k['status'] == 'open'}
    return _open


def match(v):
    for fid, (prop, fn) in PREDICATES.items():
        if prop == v['property'] and fid in _open_ids():
            try:
                if fn(v['op'], v['kind'], v['detail']):
                    return fid
            except (KeyError, TypeError, IndexError):
                continue
    return None
