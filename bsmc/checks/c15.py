"""C15 - out-of-range or mis-sized values are rejected, never wrapped or truncated (product explorer, total classification).

state  = (dtype, length, value, route)   with lengths valid AND invalid, values at / just inside / just outside each limit
oracle = the classification computed from the definitions: in range => success with exactly n bits (content per C02's encoders);
         otherwise a ValueError (CreationError) and nothing created / the assignment target unchanged.
"""
from __future__ import annotations

import io
import os

from .. import core, routes as R
from ..util import CLASSES, obs
from .c02 import SPECS, CREATE, enc_int

PROPERTY = 'C15'
VACUITY = dict(need_ok=['create', 'assign', 'window', 'array', 'token'], need_rej=['create', 'assign', 'window', 'array', 'token'], min_outcomes=100)

VE = ('ValueError', 'CreationError', 'InterpretError')


def describe(tier):
    q = tier == 'quick'
    return dict(bounds=dict(lengths='-8,-1,0,1..17,24,31,32,33,63,64,65,72,128' + ('' if q else ',18..130,255,256,257,1000'),
                            int_values='-1, 0, 2**n-1, 2**n, 2**n+1, -2**(n-1)-1, -2**(n-1), 2**(n-1)-1, 2**(n-1), and all values -2..2**n+1 for n <= %d' % (7 if q else 12),
                            float_lengths='0,8,15,16,17,31,32,33,63,64,65,128', digits='valid and invalid hex/oct/bin digit strings; token length != value length',
                            windows='bytes=, bitarray=, BytesIO, filename=, file handle: every (offset, length) in {-9,-1,0,1,7,8,9,L-1,L,L+1,L+8}^2 (+None)',
                            routes=[r[0] for r in CREATE] + ['property assignment on a non-empty object', 'Array setitem / append / extend']),
                rule='each (dtype, length, value, route, class) executed once; non-trivial = both verdicts occur: accepted cases are compared for exact '
                     'length and content, rejected cases for the exception family and for an unchanged target',
                assumptions=['CreationError is an alias of ValueError in this code base; any ValueError subclass counts as the documented rejection',
                             'wrong *types* of value (a float for uint) are out of scope (C20)'])


def int_ok(kind, n, v):
    if n is None or n < 1:
        return False
    if kind == 'uint':
        return 0 <= v < (1 << n)
    return -(1 << (n - 1)) <= v < (1 << (n - 1))


def shards(tier, seed):
    q = tier == 'quick'
    out = []
    lengths = [-8, -1, 0] + list(range(1, 18)) + [24, 31, 32, 33, 63, 64, 65, 72, 128] + ([] if q else [n for n in range(18, 131) if n not in (24, 31, 32, 33, 63, 64, 65, 72, 128)] + [255, 256, 257, 1000])
    for name in ('uint', 'int', 'uintbe', 'intbe', 'uintle', 'intle'):
        for n in lengths:
            out.append(dict(kind='ints', dtype=name, n=n))
    out.append(dict(kind='floats'))
    out.append(dict(kind='strings'))
    out.append(dict(kind='assign'))
    out.append(dict(kind='array'))
    for src in ('bytes', 'bitarray', 'bytesio', 'filename', 'handle'):
        for L in (0, 8, 24, 80):
            out.append(dict(kind='window', source=src, L=L))
    return out


def run_shard(shard, acc):
    bs = core.import_bitstring()
    with core.watchdog(1500):
        k = shard['kind']
        if k == 'ints':
            ints(bs, acc, SPECS[shard['dtype']], shard['n'])
        elif k == 'floats':
            floats(bs, acc)
        elif k == 'strings':
            strings(bs, acc)
            varlen(bs, acc)
            bits_tokens(bs, acc)
        elif k == 'assign':
            assign(bs, acc)
        elif k == 'array':
            arrays(bs, acc)
        else:
            windows(bs, acc, shard['source'], shard['L'])


def judge(acc, op, exp, got, detail, snippet_lines):
    """exp: ('ok', bits) | 'reject'.  got: obs of r.bin."""
    if exp == 'reject':
        good = got[0] == 'exc' and got[1] in VE
        acc.step(op, 1, nontrivial=1, rej=1)
    else:
        good = got == exp
        acc.step(op, 1, nontrivial=1, ok=1)
    if not good:
        kind = 'noexc' if (exp == 'reject' and got[0] == 'ok') else ('exc' if got[0] == 'exc' and exp != 'reject' else ('excclass' if got[0] == 'exc' else 'value'))
        acc.violation(op, kind, detail, '\n'.join(snippet_lines), exp, got)
    acc.outcome((op, exp if exp == 'reject' else 'ok', detail.get('route')))


def snip_create(src, exp):
    if exp == 'reject':
        return ["import bitstring, io", "try:", f"    r = {src}", "except ValueError:", "    pass", "else:", "    assert False, ('accepted', r.bin, len(r))"]
    return ["import bitstring, io", f"r = {src}", f"assert r.bin == {exp[1]!r}, r.bin"]


def ints(bs, acc, sp, n):
    q = acc.tier == 'quick'
    small = 7 if q else 12
    vals = {-2, -1, 0, 1}
    if n is not None and 0 < n:
        vals |= {(1 << n) - 1, 1 << n, (1 << n) + 1, -(1 << (n - 1)) - 1, -(1 << (n - 1)), (1 << (n - 1)) - 1, 1 << (n - 1), -(1 << n)}
        if n <= small:
            vals |= set(range(-(1 << n) - 1, (1 << n) + 2))
    acc.state((sp.name, n))
    for v in sorted(vals):
        legal_n = n is not None and n >= 1 and sp.legal(n)
        ok = legal_n and int_ok(sp.kind, n, v)
        exp = ('ok', sp.enc(v, n)) if ok else 'reject'
        vs = repr(v)
        for rname, fn, src, mutable_only in CREATE:
            if n < 0 and rname in ('kw-sized', 'setattr-sized', 'token-sized', 'dtype-sized-build', 'fromstring', 'array', 'token-colon', 'pack', 'pack-token', 'pack-kwval', 'setattr-len'):
                continue      # a negative length cannot be spelled in a name or token
            if rname == 'setattr-len' and n == 0:
                continue      # an empty target has no length to keep: C03/C20
            if rname == 'array' and not legal_n:
                # an Array of a zero/illegal-length dtype cannot be created at all: must be rejected too
                pass
            for ci, cls in enumerate(CLASSES):
                if mutable_only and cls in ('Bits', 'ConstBitStream'):
                    continue
                if '{cls}' not in src and ci:
                    continue
                if '{cls}' in src and ci != (abs(v) + (n or 0)) % 4 and not (abs(v) <= 1):
                    continue
                got = obs(lambda: fn(bs, cls, sp.name, n, v, vs), lambda r: r.bin)
                judge(acc, 'create', exp, got, dict(dtype=sp.name, n=n, value=str(v), route=rname, cls=cls, group=f"{rname}|{'ok' if ok else ('badlen' if not legal_n else 'range')}"),
                      snip_create(src.format(cls=cls, dn=sp.name, n=n, vs=vs), exp))
    acc.sample(dict(dtype=sp.name, length=n, values=sorted(vals)[:6], routes=len(CREATE)))


def floats(bs, acc):
    import struct
    for name in ('float', 'floatbe', 'floatle', 'floatne', 'f'):
        for n in (0, 8, 15, 16, 17, 31, 32, 33, 63, 64, 65, 128, -16):
            for v in (1.5, 0.0, 1e39, float('inf')):
                ok = n in (16, 32, 64)
                acc.state((name, n))
                if ok:
                    le = name in ('floatle', 'floatne')
                    try:
                        b = struct.pack(('<' if le else '>') + {16: 'e', 32: 'f', 64: 'd'}[n], v)
                    except OverflowError:
                        b = struct.pack(('<' if le else '>') + {16: 'e', 32: 'f', 64: 'd'}[n], float('inf'))
                    exp = ('ok', ''.join(format(x, '08b') for x in b))
                else:
                    exp = 'reject'
                vs = repr(v) if v != float('inf') else "float('inf')"
                for rname, fn, src, mutable_only in CREATE:
                    if n < 0 and rname not in ('kw+length', 'dtype-build', 'pack-kwlen'):
                        continue
                    if rname == 'setattr-len':
                        continue
                    if v == float('inf') and 'token' in rname or (v == float('inf') and rname in ('fromstring',)):
                        continue
                    cls = 'BitArray' if mutable_only else CLASSES[(n + len(name)) % 4]
                    got = obs(lambda: fn(bs, cls, name, n, v, vs), lambda r: r.bin)
                    judge(acc, 'create', exp, got, dict(dtype=name, n=n, value=vs, route=rname, cls=cls, group=f"{rname}|float|{'ok' if ok else 'badlen'}"),
                          ["inf = float('inf')"] + snip_create(src.format(cls=cls, dn=name, n=n, vs=vs), exp))
    # bool must be exactly one bit
    for n in (0, 1, 2, 8, -1):
        for v in (True, False):
            exp = ('ok', '1' if v else '0') if n == 1 else 'reject'
            for rname, th, src in [('kw+length', lambda: bs.Bits(bool=v, length=n), f"bitstring.Bits(bool={v}, length={n})"),
                                   ('dtype-build', lambda: bs.Dtype('bool', n).build(v), f"bitstring.Dtype('bool', {n}).build({v})"),
                                   ('pack-kwlen', lambda: bs.pack('bool:k', v, k=n), f"bitstring.pack('bool:k', {v}, k={n})")] + \
                                  ([('token', lambda: bs.BitArray(f'bool:{n}={v}'), f"bitstring.BitArray('bool:{n}={v}')"), ('pack', lambda: bs.pack(f'bool:{n}', v), f"bitstring.pack('bool:{n}', {v})")] if n >= 0 else []):
                got = obs(th, lambda r: r.bin)
                judge(acc, 'create', exp, got, dict(dtype='bool', n=n, value=str(v), route=rname, group=f'{rname}|bool'), snip_create(src, exp))
    for v in (2, -1, 'yes', None, 1.0):
        got = obs(lambda: bs.Bits(bool=v), lambda r: r.bin)
        exp = ('ok', '1') if v == 1.0 else 'reject'
        judge(acc, 'create', exp, got, dict(dtype='bool', value=repr(v), route='kw', group='bool-value'), snip_create(f"bitstring.Bits(bool={v!r})", exp))


def strings(bs, acc):
    """hex / oct / bin: invalid digits; stated length disagreeing with the value's length."""
    cases = []
    per = {'hex': 4, 'oct': 3, 'bin': 1}
    good = {'hex': ['', 'f', 'a5', '0x3c', '0XAB', 'dead', 'a_b'], 'oct': ['', '7', '01', '0o17', '777'], 'bin': ['', '1', '01', '0b101', '1111_0000']}
    bad = {'hex': ['g', '0xg', 'f.', '-1', 'ff ff g'], 'oct': ['8', '9', '0o8', 'a'], 'bin': ['2', '0b2', 'a', '10-1']}
    for name in ('hex', 'oct', 'bin'):
        for v in good[name] + bad[name]:
            digits = v.lower().replace('_', '').replace(' ', '')
            pre = {'hex': '0x', 'oct': '0o', 'bin': '0b'}[name]
            if digits.startswith(pre):
                digits = digits[2:]
            valid = v in good[name]
            nb = len(digits) * per[name]
            base = {'hex': 16, 'oct': 8, 'bin': 2}[name]
            bits = enc_int(int(digits, base), nb) if valid and nb else ''
            for n in (None, nb, nb + per[name], max(nb - per[name], 0) if nb else per[name], nb + 1, 0, -per[name]):
                if n is not None and not valid and n != nb:
                    continue
                legal = n is None or (n >= 0 and n % per[name] == 0)
                ok = valid and (n is None or n == nb) and legal
                exp = ('ok', bits) if ok else 'reject'
                acc.state((name, v, n))
                rts = [('kw', None if n is not None else (lambda: bs.Bits(**{name: v})), f"bitstring.Bits({name}={v!r})"),
                       ('kw+length', None if n is None else (lambda: bs.BitArray(**{name: v}, length=n)), f"bitstring.BitArray({name}={v!r}, length={n})"),
                       ('dtype-build', lambda: bs.Dtype(name, n).build(v), f"bitstring.Dtype({name!r}, {n}).build({v!r})"),
                       ('pack', None if (n is None or n < 0) else (lambda: bs.pack(f'{name}:{n}', v)), f"bitstring.pack('{name}:{n}', {v!r})"),
                       ('pack-lenless', None if n is not None else (lambda: bs.pack(name, v)), f"bitstring.pack({name!r}, {v!r})"),
                       ('pack-kwlen', None if n is None else (lambda: bs.pack(f'{name}:k', v, k=n)), f"bitstring.pack('{name}:k', {v!r}, k={n})"),
                       ('token', None if (n is None or n < 0 or ' ' in v or not v) else (lambda: bs.ConstBitStream(f'{name}:{n}={v}')), f"bitstring.ConstBitStream('{name}:{n}={v}')"),
                       ('token-lenless', None if (n is not None or ' ' in v or not v) else (lambda: bs.BitStream(f'{name}={v}')), f"bitstring.BitStream('{name}={v}')"),
                       ('setattr', None if n is not None else (lambda: _seta(bs, name, v)), f"(lambda x: (setattr(x, {name!r}, {v!r}), x)[1])(bitstring.BitArray('0b1'))")]
                for rname, th, src in rts:
                    if th is None:
                        continue
                    got = obs(th, lambda r: r.bin)
                    judge(acc, 'token', exp, got, dict(dtype=name, n=n, value=v, route=rname, group=f"{rname}|{name}|{'ok' if ok else ('digits' if not valid else 'len')}"), snip_create(src, exp))
    # literal tokens and bits / bytes tokens with a stated length
    for tok, exp in [('0xg', 'reject'), ('0b12', 'reject'), ('0o8', 'reject'), ('0x', 'reject'), ('bits:5=0b1', 'reject'), ('bits:1=0b1', ('ok', '1')), ('bits:4=0xf', ('ok', '1111')),
                     ('bits:8=0xf', 'reject'), ('uint:3=8', 'reject'), ('int:3=-5', 'reject'), ('int:3=-4', ('ok', '100')), ('uint:0=0', 'reject'), ('hex:8=f', 'reject'),
                     ('bin:3=01', 'reject'), ('oct:6=7', 'reject'), ('float:31=1.0', 'reject'), ('uintle:12=1', 'reject'), ('intbe:7=1', 'reject'), ('bool:2=1', 'reject'),
                     ('ue=-1', 'reject'), ('uie=-3', 'reject'), ('u8=256', 'reject'), ('i8=-129', 'reject'), ('i8=-128', ('ok', '10000000')), ('u8=255', ('ok', '11111111'))]:
        for rname, th, src in [('ctor', lambda: bs.Bits(tok), f"bitstring.Bits({tok!r})"), ('pack', lambda: bs.pack(tok), f"bitstring.pack({tok!r})"),
                               ('fromstring', lambda: bs.BitArray.fromstring(tok), f"bitstring.BitArray.fromstring({tok!r})"),
                               ('append', lambda: _app(bs, tok), f"(lambda x: (x.append({tok!r}), x[3:])[1])(bitstring.BitArray('0b101'))")]:
            got = obs(th, lambda r: r.bin)
            judge(acc, 'token', exp, got, dict(token=tok, route=rname, group=f'tok|{rname}'), snip_create(src, exp))
    for fmt, vals, exp in [('uint:8', (256,), 'reject'), ('uint:8, uint:8', (1, 256), 'reject'), ('bits:4', ('0b1',), 'reject'), ('bytes:2', (b'a',), 'reject'), ('bytes:1', (b'ab',), 'reject'),
                           ('bytes:2', (b'ab',), ('ok', '0110000101100010')), ('hex:8', ('f',), 'reject'), ('bin:2', ('111',), 'reject'), ('int:4', (8,), 'reject'), ('int:4', (-9,), 'reject'),
                           ('<H', (65536,), 'reject'), ('>b', (128,), 'reject'), ('>b', (-128,), ('ok', '10000000')), ('<H', (65535,), ('ok', '1' * 16)), ('=B', (-1,), 'reject'),
                           ('>q', (2 ** 63,), 'reject'), ('>Q', (2 ** 64 - 1,), ('ok', '1' * 64)), ('>I', (-1,), 'reject'), ('>I', (2 ** 32 - 1,), ('ok', '1' * 32)), ('<i', (2 ** 31,), 'reject'),
                           ('>L', (2 ** 32,), 'reject'), ('@h', (-32769,), 'reject'), ('2*u4', (15, 16), 'reject'), ('u4, 2*(i2)', (15, -2, 2), 'reject')]:
        got = obs(lambda: bs.pack(fmt, *vals), lambda r: r.bin)
        judge(acc, 'token', exp, got, dict(fmt=fmt, values=repr(vals), route='pack', group='pack'), snip_create(f"bitstring.pack({fmt!r}, *{vals!r})", exp))


def varlen(bs, acc):
    """A length is 'not allowed for the type' for the self-delimiting codes, even when it happens to equal the codeword's length."""
    from ..models import golomb as G
    for name in ('ue', 'se', 'uie', 'sie'):
        for v in (0, 1, 3, 6, -1, -3):
            if v < 0 and name in ('ue', 'uie'):
                continue
            code = G.ENC[name](v)
            for n in sorted({len(code), len(code) + 1, max(len(code) - 1, 0), 0, 8}):
                acc.state(('varlen', name, v, n))
                rts = [('kw', lambda: getattr(bs, 'Bits')(**{name: v}, length=n), f"bitstring.Bits({name}={v}, length={n})"),
                       ('kw-mutable', lambda: bs.BitStream(**{name: v}, length=n), f"bitstring.BitStream({name}={v}, length={n})"),
                       ('token-colon', lambda: bs.Bits(f'{name}:{n}={v}'), f"bitstring.Bits('{name}:{n}={v}')"),
                       ('token-sized', lambda: bs.BitArray(f'{name}{n}={v}'), f"bitstring.BitArray('{name}{n}={v}')"),
                       ('pack', lambda: bs.pack(f'{name}:{n}', v), f"bitstring.pack('{name}:{n}', {v})"),
                       ('pack-kw', lambda: bs.pack(f'{name}:k', v, k=n), f"bitstring.pack('{name}:k', {v}, k={n})"),
                       ('dtype', lambda: bs.Dtype(name, n).build(v), f"bitstring.Dtype('{name}', {n}).build({v})"),
                       ('dtype-sized', lambda: bs.Dtype(f'{name}{n}').build(v), f"bitstring.Dtype('{name}{n}').build({v})"),
                       ('setattr-sized', lambda: _seta(bs, f'{name}{n}', v), f"(lambda x: (setattr(x, '{name}{n}', {v}), x)[1])(bitstring.BitArray('0b1'))")]
                for rname, th, src in rts:
                    got = obs(th, lambda r: r.bin)
                    judge(acc, 'create', 'reject', got, dict(dtype=name, n=n, value=v, route=rname, group=f'varlen|{rname}'), snip_create(src, 'reject'))
            # and without a length the codeword is produced
            got = obs(lambda: bs.Bits(**{name: v}), lambda r: r.bin)
            judge(acc, 'create', ('ok', code), got, dict(dtype=name, value=v, route='kw', group='varlen|ok'), snip_create(f"bitstring.Bits({name}={v})", ('ok', code)))
    acc.sample(dict(event="Bits(ue=3, length=5) -> CreationError although the codeword for 3 has 5 bits"))


def bits_tokens(bs, acc):
    """The bits / bytes / pad tokens: a stated length that disagrees with the value (zero and non-zero) through every route."""
    cases = []
    for n in (0, 1, 3, 8):
        for val in ('', '0b1', '0b101', '0xff', '0b00000000'):
            vb = {'': '', '0b1': '1', '0b101': '101', '0xff': '11111111', '0b00000000': '00000000'}[val]
            cases.append((n, val, vb))
    for n, val, vb in cases:
        ok = len(vb) == n
        exp = ('ok', vb) if ok else 'reject'
        acc.state(('bits', n, val))
        rts = [('kw', lambda: bs.Bits(bits=val, length=n), f"bitstring.Bits(bits={val!r}, length={n})"), ('token', lambda: bs.BitArray(f'bits:{n}={val}') if val else bs.BitArray(f'bits:{n}='), f"bitstring.BitArray('bits:{n}={val}')"),
               ('pack', lambda: bs.pack(f'bits:{n}', val), f"bitstring.pack('bits:{n}', {val!r})"), ('pack-kwlen', lambda: bs.pack('bits:k', val, k=n), f"bitstring.pack('bits:k', {val!r}, k={n})"),
               ('pack-kwval', lambda: bs.pack(f'bits:{n}=v', v=val), f"bitstring.pack('bits:{n}=v', v={val!r})"), ('pack-int-token', lambda: bs.pack(f'{n}', val), f"bitstring.pack('{n}', {val!r})"),
               ('pack-bitsobj', lambda: bs.pack(f'bits:{n}', bs.Bits(bin=vb)), f"bitstring.pack('bits:{n}', bitstring.Bits(bin={vb!r}))"),
               ('build', lambda: bs.Dtype('bits', n).build(val), f"bitstring.Dtype('bits', {n}).build({val!r})"),
               ('pack-second', lambda: bs.pack(f'u4, bits:{n}', 5, val)[4:], f"bitstring.pack('u4, bits:{n}', 5, {val!r})[4:]")]
        for rname, th, src in rts:
            if rname == 'token' and not val:
                continue
            if rname == 'kw' and n == 0 and False:
                continue
            got = obs(th, lambda r: r.bin)
            judge(acc, 'token', exp, got, dict(dtype='bits', n=n, value=val, route=rname, group=f'bits|{rname}'), snip_create(src, exp))
    acc.sample(dict(event="pack('bits:0', '0b1') -> CreationError; pack('bits:3', '0b101') -> 101"))


def _seta(bs, name, v):
    x = bs.BitArray('0b1')
    setattr(x, name, v)
    return x


def _app(bs, tok):
    x = bs.BitArray('0b101')
    x.append(tok)
    return x[3:]


def assign(bs, acc):
    """Property assignment on a non-empty mutable object: a rejected assignment leaves the target as it was."""
    for cls in ('BitArray', 'BitStream'):
        for L in (1, 3, 8, 16, 17):
            d = ('10110010' * 3)[:L]
            for pname, kind in (('uint', 'uint'), ('int', 'int'), ('uintbe', 'uint'), ('intle', 'int'), ('u', 'uint'), ('i', 'int')):
                for v in sorted({-1, 0, (1 << L) - 1, 1 << L, -(1 << (L - 1)) - 1, -(1 << (L - 1)), (1 << (L - 1)) - 1, 1 << (L - 1)}):
                    legal = L % 8 == 0 or pname in ('uint', 'int', 'u', 'i')
                    ok = legal and int_ok(kind, L, v)
                    one_assign(bs, acc, cls, d, pname, v, ('ok', SPECS[{'u': 'uint', 'i': 'int'}.get(pname, pname)].enc(v, L)) if ok else 'reject')
            # sized names replace the whole value: out of range must leave the old value
            for pname, v, exp in [('u4', 16, 'reject'), ('u4', 15, ('ok', '1111')), ('i4', -9, 'reject'), ('u0', 0, 'reject'), ('uintle12', 1, 'reject'), ('float20', 1.0, 'reject'),
                                  ('float16', 1.0, ('ok', '0011110000000000')), ('hex8', 'f', 'reject'), ('hex8', 'fg', 'reject'), ('hex8', 'a5', ('ok', '10100101')),
                                  ('bin3', '01', 'reject'), ('bin2', '12', 'reject'), ('bool', 2, 'reject'), ('bytes2', b'a', 'reject'), ('bytes1', b'a', ('ok', '01100001')),
                                  ('ue', -1, 'reject'), ('uie', -1, 'reject'), ('bits', '0b1', ('ok', '1')), ('hex', 'xyz', 'reject'), ('bin', '102', 'reject'), ('oct', '8', 'reject'),
                                  ('e8m0mxfp', 3.0, 'reject'), ('e2m1mxfp', float('nan'), 'reject'), ('float', 1.0, ('ok', None) if L == 16 else 'reject')]:
                if exp == ('ok', None):
                    exp = ('ok', '0011110000000000')
                one_assign(bs, acc, cls, d, pname, v, exp)
    acc.sample(dict(event="x = BitArray('0b101'); x.uint = 8  -> ValueError and x unchanged"))


def one_assign(bs, acc, cls, d, pname, v, exp):
    x = getattr(bs, cls)(bin=d)
    p0 = (len(d) + 1) // 2 if cls == 'BitStream' else None       # a stream is positioned mid-way: a rejected assignment must not move it
    if p0 is not None:
        x.pos = p0
    acc.state((cls, d, pname, repr(v)))

    def do():
        setattr(x, pname, v)
        return x.bin
    got = obs(do)
    after = x.bin
    vs = "float('nan')" if isinstance(v, float) and v != v else repr(v)
    snip = ["import bitstring", f"x = bitstring.{cls}(bin={d!r})" + (f"; x.pos = {p0}" if p0 is not None else ""), "try:", f"    x.{pname} = {vs}", "    ok = True", "except ValueError:", "    ok = False"]
    if exp == 'reject':
        good = got[0] == 'exc' and got[1] in VE and after == d and (p0 is None or x.pos == p0)
        acc.step('assign', 1, nontrivial=1, rej=1)
        snip += [f"assert not ok and x.bin == {d!r}, (ok, x.bin)"] + ([f"assert x.pos == {p0}, x.pos"] if p0 is not None else [])
    else:
        good = got == exp
        acc.step('assign', 1, nontrivial=1, ok=1)
        snip += [f"assert ok and x.bin == {exp[1]!r}, (ok, x.bin)"]
    if not good:
        kind = 'frame' if (exp == 'reject' and got[0] == 'exc' and (after != d or (p0 is not None and x.pos != p0))) else ('noexc' if exp == 'reject' and got[0] == 'ok' else ('excclass' if exp == 'reject' else 'value'))
        acc.violation('assign', kind, dict(cls=cls, bits=d, prop=pname, value=vs, group=f'{pname}|{kind}'), '\n'.join(snip), exp, (got, after))
    acc.outcome(('assign', pname, exp if exp == 'reject' else 'ok'))


def arrays(bs, acc):
    # good: at least two *different* acceptable values, so that an element written before a failure is visible
    for dt, good, bad in [('uint8', [0, 255], [256, -1]), ('int8', [-128, 127], [128, -129]), ('uint3', [7, 0], [8, -1]), ('int4', [-8, 7], [8, -9]), ('<H', [65535, 1], [65536, -1]),
                          ('>b', [-128, 5], [128]), ('hex4', ['f', '0'], ['g', 'ff', '']), ('bin2', ['01', '10'], ['1', '012', '111']), ('bool', [True, 0], [2, -1]), ('float16', [1.0, 2.0], []),
                          ('uintle16', [65535, 2], [65536]), ('intbe24', [-(1 << 23), 1], [1 << 23]), ('oct3', ['7', '1'], ['8', '77']), ('e8m0mxfp', [2.0, 4.0], [3.0, -1.0])]:
        for ctor_bad in bad:
            got = obs(lambda: bs.Array(dt, [good[0], ctor_bad]).data, lambda r: r.bin)
            judge(acc, 'array', 'reject', got, dict(dtype=dt, value=repr(ctor_bad), route='ctor', group='array-ctor'),
                  ["import bitstring", "try:", f"    a = bitstring.Array({dt!r}, [{good[0]!r}, {ctor_bad!r}])", "except ValueError:", "    pass", "else:", "    assert False, a"])
        for v in good + bad:
            for op, src in (('setitem', "a[1] = V"), ('append', "a.append(V)"), ('insert', "a.insert(0, V)"), ('extend', "a.extend([G, V])"), ('setslice', "a[0:1] = [G, V]"),
                            ('setslice-eq', "a[0:2] = [G, V]"), ('setslice-eq3', "a[0:3] = [G, G, V]"), ('setslice-step', "a[::2] = [G, V]"), ('setslice-gen', "a[0:2] = (x for x in [G, V])"),
                            ('extend-tuple', "a.extend((G, V))"), ('extend-gen', "a.extend(x for x in [G, V])")):
                a = bs.Array(dt, [good[0], good[0], good[0]])
                before = a.data.bin
                ns = dict(a=a, V=v, G=good[1])
                from ..bfs import run_src
                got = run_src(ns, src)
                after = a.data.bin
                ok = v in good
                acc.state((dt, op, repr(v)))
                if ok:
                    acc.step('array', 1, nontrivial=1, ok=1)
                    good_ = got[0] == 'ok' and len(after) % a.dtype.bitlength == 0 and len(after) >= len(before)
                else:
                    acc.step('array', 1, nontrivial=1, rej=1)
                    good_ = got[0] == 'exc' and got[1] in VE and after == before
                if not good_:
                    kind = 'frame' if (not ok and got[0] == 'exc' and after != before) else ('noexc' if not ok and got[0] == 'ok' else ('exc' if ok else 'excclass'))
                    acc.violation('array', kind, dict(dtype=dt, value=repr(v), op=op, group=f'{op}|{kind}'),
                                  '\n'.join(["import bitstring", f"a = bitstring.Array({dt!r}, [{good[0]!r}] * 3)", "before = a.data.bin", f"G, V = {good[1]!r}, {v!r}",
                                             "try:", f"    {src}", "    ok = True", "except ValueError:", "    ok = False",
                                             f"assert ok is {ok} and (ok or a.data.bin == before), (ok, a.data.bin, before)"]), 'accept' if ok else 'reject, unchanged', (got, after))
                acc.outcome(('array', dt, op, ok))
    acc.sample(dict(event="a = Array('uint8', [0, 255]); a[1] = 256 -> ValueError and a unchanged"))


def windows(bs, acc, source, L):
    """offset / length beyond, at and before the end - and negative - for every windowed source."""
    import bitarray
    bits = ('1011001000000001' * 6)[:L]
    payload = R.to_bytes(bits)
    ctx = R.Ctx() if source in ('filename', 'handle') else None
    try:
        menu = [None] + sorted({-9, -1, 0, 1, 7, 8, 9, L - 1, L, L + 1, L + 8})
        for off in menu:
            for ln in menu:
                if off is None and ln is None:
                    continue
                o = 0 if off is None else off
                valid = o >= 0 and (ln is None or ln >= 0) and o + (ln or 0) <= L and o <= L
                exp = ('ok', bits[o:] if ln is None else bits[o:o + ln]) if valid else 'reject'
                kw = ', '.join(f'{k}={v}' for k, v in (('offset', off), ('length', ln)) if v is not None)
                kwargs = {k: v for k, v in (('offset', off), ('length', ln)) if v is not None}
                for cls in (CLASSES if L <= 8 else (CLASSES[(o + (ln or 0)) % 4],)):
                    c = getattr(bs, cls)
                    if source == 'bytes':
                        th, src = (lambda: c(bytes=payload, **kwargs)), f"bitstring.{cls}(bytes={payload!r}, {kw})"
                    elif source == 'bitarray':
                        th, src = (lambda: c(bitarray=bitarray.bitarray(bits), **kwargs)), f"bitstring.{cls}(bitarray=__import__('bitarray').bitarray({bits!r}), {kw})"
                    elif source == 'bytesio':
                        th, src = (lambda: c(io.BytesIO(payload), **kwargs)), f"bitstring.{cls}(io.BytesIO({payload!r}), {kw})"
                    elif source == 'filename':
                        if L % 8:
                            continue
                        f = ctx.file_for(payload)
                        th, src = (lambda: c(filename=f, **kwargs)), f"bitstring.{cls}(filename=F, {kw})"
                    else:
                        if L % 8:
                            continue
                        f = ctx.file_for(payload)

                        def th():
                            with open(f, 'rb') as fh:
                                return c(fh, **kwargs)
                        src = f"bitstring.{cls}(open(F, 'rb'), {kw})"
                    if source in ('filename', 'handle') and L == 0:
                        continue      # an empty file cannot be mapped: OSError/ValueError from mmap is not this property's business
                    got = obs(th, lambda r: r.bin)
                    lines = snip_create(src, exp)
                    if 'F' in src:
                        lines = ["import tempfile, os", "F = os.path.join(tempfile.mkdtemp(), 'f.bin')", f"open(F, 'wb').write({payload!r})"] + lines
                    acc.state((source, L, off, ln, cls))
                    judge(acc, 'window', exp, got, dict(source=source, L=L, offset=off, length=ln, cls=cls,
                                                        group=f"{source}|{'neg' if (o < 0 or (ln or 0) < 0) else ('beyond' if not valid else 'ok')}"), lines)
        acc.sample(dict(source=source, bits=L, event="Cls(source, offset=o, length=n) for every (o, n) in the boundary menu"))
    finally:
        if ctx:
            ctx.close()
