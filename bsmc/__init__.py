"""bsmc - bounded exhaustive explorer (explicit-state model checker) for scott-griffiths/bitstring."""
