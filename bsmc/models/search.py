"""Reference model for C07: quadratic scan on the str of the bits. Imports nothing from bitstring."""
from __future__ import annotations

VE = ('exc', 'ValueError')


def occurrences(d, pat):
    n = len(pat)
    if n == 0:
        return []
    return [p for p in range(0, len(d) - n + 1) if d[p:p + n] == pat]


def window(L, start, end):
    """Normalised [start, end) or None when the range is invalid (must raise ValueError)."""
    s = 0 if start is None else (start + L if start < 0 else start)
    e = L if end is None else (end + L if end < 0 else end)
    if not 0 <= s <= e <= L:
        return None
    return (s, e)


def _in(occ, n, win, ba):
    s, e = win
    return [p for p in occ if p >= s and p + n <= e and (not ba or p % 8 == 0)]


def find(d, pat, win, ba, occ):
    if pat == '' or win is None:
        return VE
    m = _in(occ, len(pat), win, ba)
    return ('ok', (m[0],) if m else ())


def rfind(d, pat, win, ba, occ):
    if pat == '' or win is None:
        return VE
    m = _in(occ, len(pat), win, ba)
    return ('ok', (m[-1],) if m else ())


def findall(d, pat, win, ba, count, occ):
    if pat == '' or win is None or (count is not None and count < 0):
        return VE
    m = _in(occ, len(pat), win, ba)
    return ('ok', m if count is None else m[:count])


def contains(d, pat, ba, occ):
    if pat == '':
        return VE
    return ('ok', bool(_in(occ, len(pat), (0, len(d)), ba)))


def startswith(d, pat, win):
    if win is None:
        return VE
    s, e = win
    return ('ok', e - s >= len(pat) and d[s:s + len(pat)] == pat)


def endswith(d, pat, win):
    if win is None:
        return VE
    s, e = win
    return ('ok', e - s >= len(pat) and d[e - len(pat):e] == pat)


def nonoverlapping(d, pat, win, ba, limit=None):
    """Successive non-overlapping matches from the left, wholly inside the window."""
    s, e = win
    n = len(pat)
    out = []
    p = s
    while p + n <= e:
        if d[p:p + n] == pat and (not ba or p % 8 == 0):
            out.append(p)
            if limit is not None and len(out) == limit:
                break
            p += n
        else:
            p += 1
    return out


def split(d, pat, win, ba, count):
    if pat == '' or win is None or (count is not None and count < 0):
        return VE
    s, e = win
    m = nonoverlapping(d, pat, win, ba)
    if not m:
        pieces = [d[s:e]]
    else:
        pieces = [d[s:m[0]]] + [d[m[i]:m[i + 1]] for i in range(len(m) - 1)] + [d[m[-1]:e]]
    if count is not None:
        pieces = pieces[:count]
    return ('ok', pieces)


def replace(d, old, new, win, ba, count):
    """Returns ('ok', (number of replacements, new content))."""
    if count == 0:
        return ('ok', (0, d))
    if old == '' or win is None:
        return VE
    m = nonoverlapping(d, old, win, ba, limit=count)
    out, prev = [], 0
    for p in m:
        out.append(d[prev:p])
        out.append(new)
        prev = p + len(old)
    out.append(d[prev:])
    return ('ok', (len(m), ''.join(out)))


def cut(d, bits, win, count):
    if win is None or (count is not None and count < 0) or bits <= 0:
        return VE
    s, e = win
    pieces = [d[i:min(i + bits, e)] for i in range(s, e, bits)]
    if count is not None:
        pieces = pieces[:count]
    return ('ok', pieces)
