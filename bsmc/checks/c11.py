"""C11 - 8-bit, micro-scaling and bfloat codecs decode and round exactly as specified (product explorer, exhaustive tables).

decode side: state = (format, code)                  event = reading route
encode side: state = (format, mxfp_overflow, input)  event = creation route
oracle = bsmc.models.minifloat (exact model written from the format definitions and the documented conversion rule).
"""
from __future__ import annotations

import math
import struct

from .. import core, families
from ..models import minifloat as M
from ..util import obs

PROPERTY = 'C11'
VACUITY = dict(need_ok=['decode', 'encode', 'encode64', 'reencode', 'scaled', 'bfloat-decode', 'bfloat-encode', 'mxint', 'e8m0'],
               need_rej=['encode', 'e8m0', 'mxint'], min_outcomes=300)
MODES = ('saturate', 'overflow')
LUT_FORMATS = list(M.FORMATS)


def describe(tier):
    return dict(bounds=dict(decode='every code of every format (256/64/16; 65536 for bfloat in every byte order) through property, sized property, Dtype.parse, '
                                   'read, unpack, Array',
                            encode='all 65536 binary16 values x 7 formats x both mxfp_overflow settings through the keyword route; token / Dtype.build / pack / '
                                   'property assignment / Array element routes on every %dth value plus all specials' % (97 if tier == 'quick' else 13),
                            float64='for every pair of adjacent binary16 values: the midpoint and its two binary64 neighbours; 65504, 65520 -+ 1ulp, 1e5, +-1.8e308, '
                                    '+-inf, nan, +-0.0, 5e-324, 2**-25 -+ 1ulp',
                            mxint='every k/128, |k| <= 300, -+ 1 ulp', e8m0='every 2**k, |k| <= 130, and binary64 neighbours',
                            bfloat='16k-pattern binary32 family, every bfloat midpoint -+ 1ulp (as binary32 values) on a stride, overflow values',
                            scales=[2, 0.5, 2 ** -6, 3, 2 ** 10, 4], scaled_build_values='floats and ints (an int value with an int scale must be divided exactly, not floored)',
                            option_setter='a rejected assignment to options.mxfp_overflow leaves the setting (and the encodings) as they were'),
                rule='every (format, mode, input, route) of the product executed once; non-trivial = the model yields a code (input is not NaN for formats '
                     'without NaN, not a non-power-of-two for e8m0)',
                assumptions=['the float -> binary16 step is constant on each binary16 rounding interval, whose end points are all enumerated; '
                             'exact model self-tested against struct and the doc tables',
                             'which NaN code is produced is not documented: any code that decodes to NaN is accepted'])


def selftest():
    M.selftest()


def f16(p):
    return struct.unpack('>e', p.to_bytes(2, 'big'))[0]


def shards(tier, seed):
    out = []
    for name in LUT_FORMATS:
        out.append(dict(kind='decode', fmt=name))
        for mode in MODES:
            if mode == 'overflow' and name not in ('e4m3mxfp', 'e5m2mxfp'):
                continue
            for lo in range(0, 65536, 8192):
                out.append(dict(kind='encode', fmt=name, mode=mode, lo=lo, hi=lo + 8192))
            for lo in range(0, 0x7c00, 0x1000):
                out.append(dict(kind='mid', fmt=name, mode=mode, lo=lo, hi=min(lo + 0x1000, 0x7c00)))
            out.append(dict(kind='special', fmt=name, mode=mode))
    out.append(dict(kind='mxint'))
    out.append(dict(kind='e8m0'))
    for lo in range(0, 65536, 8192):
        out.append(dict(kind='bfloat-decode', lo=lo, hi=lo + 8192))
    out.append(dict(kind='bfloat-encode'))
    out.append(dict(kind='scaled'))
    return out


def fx(v):
    return 'nan' if v != v else float(v).hex()


def run_shard(shard, acc):
    bs = core.import_bitstring()
    with core.watchdog(1500):
        k = shard['kind']
        if k == 'decode':
            decode_all(bs, acc, shard['fmt'])
        elif k == 'encode':
            core.set_options(mxfp_overflow=shard['mode'])
            stride = 97 if acc.tier == 'quick' else 13
            for p in range(shard['lo'], shard['hi']):
                x = f16(p)
                encode_one(bs, acc, shard['fmt'], shard['mode'], x, 'encode', full=(p % stride == 0 or p in (0, 0x8000, 0x7c00, 0xfc00, 0x7e00, 0x7bff, 0xfbff, 1, 0x8001)))
        elif k == 'mid':
            core.set_options(mxfp_overflow=shard['mode'])
            for p in range(shard['lo'], shard['hi']):
                a, b = f16(p), f16(p + 1)
                if math.isinf(b):
                    b = 65536.0
                m = (a + b) / 2
                for x in (m, math.nextafter(m, math.inf), math.nextafter(m, -math.inf)):
                    for sx in (x, -x):
                        encode_one(bs, acc, shard['fmt'], shard['mode'], sx, 'encode64', full=False)
        elif k == 'special':
            core.set_options(mxfp_overflow=shard['mode'])
            sp = [65504.0, 65520.0, math.nextafter(65520.0, 0), math.nextafter(65520.0, math.inf), 1e5, 1.8e308, float('inf'), float('nan'), 0.0, 5e-324,
                  2.0 ** -25, math.nextafter(2.0 ** -25, 0), math.nextafter(2.0 ** -25, 1), 2.0 ** -24, 1e-10, 65519.99, 70000.0, 1e30]
            fm = M.FORMATS[shard['fmt']]
            sp += [fm.max_val, fm.max_val + fm.ulp_top / 2, math.nextafter(fm.max_val + fm.ulp_top / 2, math.inf), math.nextafter(fm.max_val + fm.ulp_top / 2, 0),
                   fm.pos_vals[1], fm.pos_vals[1] / 2, math.nextafter(fm.pos_vals[1] / 2, 1), math.nextafter(fm.pos_vals[1] / 2, 0)]
            for x in sp:
                for sx in (x, -x):
                    encode_one(bs, acc, shard['fmt'], shard['mode'], sx, 'encode64', full=True)
            reencode(bs, acc, shard['fmt'], shard['mode'])
        elif k == 'mxint':
            run_mxint(bs, acc)
        elif k == 'e8m0':
            run_e8m0(bs, acc)
        elif k == 'bfloat-decode':
            run_bfloat_decode(bs, acc, shard)
        elif k == 'bfloat-encode':
            run_bfloat_encode(bs, acc)
        elif k == 'scaled':
            run_scaled(bs, acc)
            run_option_setter(bs, acc)
    core.set_options()


def decode_all(bs, acc, name):
    fm = M.FORMATS[name]
    n = fm.nbits
    for code in range(1 << n):
        exp = fx(fm.decode(code))
        bits = format(code, f'0{n}b')
        acc.state((name, code))
        routes = [('prop', lambda: getattr(bs.Bits(bin=bits), name), f"bitstring.Bits(bin={bits!r}).{name}"),
                  ('sized', lambda: getattr(bs.BitArray(bin=bits), f'{name}{n}'), f"bitstring.BitArray(bin={bits!r}).{name}{n}"),
                  ('parse', lambda: bs.Dtype(name).parse(bs.Bits(bin=bits)), f"bitstring.Dtype({name!r}).parse(bitstring.Bits(bin={bits!r}))"),
                  ('read', lambda: bs.ConstBitStream(bin='101' + bits + '1', pos=3).read(name), f"bitstring.ConstBitStream(bin={'101' + bits + '1'!r}, pos=3).read({name!r})"),
                  ('unpack', lambda: bs.Bits(bin=bits + '0').unpack(f'{name}, bool')[0], f"bitstring.Bits(bin={bits + '0'!r}).unpack('{name}, bool')[0]"),
                  ('array', lambda: bs.Array(name, bs.Bits(bin=bits * 3)).tolist()[1], f"bitstring.Array({name!r}, bitstring.Bits(bin={bits * 3!r})).tolist()[1]"),
                  ('lsb0', lambda: _lsb0(bs, lambda: getattr(bs.Bits(bin=bits), name)), f"(setattr(bitstring.options, 'lsb0', True), bitstring.Bits(bin={bits!r}).{name})[1]")]
        for rname, th, src in routes:
            got = obs(th, fx)
            acc.step('decode', 1, nontrivial=1, ok=1)
            if got != ('ok', exp):
                acc.violation('decode', 'value' if got[0] == 'ok' else 'exc', dict(fmt=name, code=code, route=rname, group=rname),
                              '\n'.join(["import bitstring", f"r = {src}", f"assert ('nan' if r != r else r.hex()) == {exp!r}, r"]), exp, got)
        acc.outcome((name, code, exp))
    acc.sample(dict(fmt=name, event=f"Bits(uint=c, length={n}).{name} for every c; also sized property, Dtype.parse, read, unpack, Array, under lsb0"))


def _lsb0(bs, th):
    bs.options.lsb0 = True
    try:
        return th()
    finally:
        bs.options.lsb0 = False


def enc_routes(bs, name, n, x):
    xs = repr(x)
    return [('kw', lambda: getattr(bs, 'Bits')(**{name: x}), f"bitstring.Bits({name}={xs})"),
            ('token', lambda: bs.BitArray(f'{name}={xs}'), f"bitstring.BitArray('{name}={xs}')"),
            ('build', lambda: bs.Dtype(name).build(x), f"bitstring.Dtype({name!r}).build({xs})"),
            ('pack', lambda: bs.pack(name, x), f"bitstring.pack({name!r}, {xs})"),
            ('packsized', lambda: bs.pack(f'{name}{n}', x), f"bitstring.pack('{name}{n}', {xs})"),
            ('setattr', lambda: _set(bs, name, x), f"(lambda b: (setattr(b, {name!r}, {xs}), b)[1])(bitstring.BitArray(3))"),
            ('array', lambda: bs.Array(name, [x]).data, f"bitstring.Array({name!r}, [{xs}]).data"),
            ('arrayset', lambda: _aset(bs, name, x), f"(lambda a: (a.__setitem__(0, {xs}), a.data)[1])(bitstring.Array({name!r}, [0.0]))")]


def _set(bs, name, x):
    b = bs.BitArray(3)
    setattr(b, name, x)
    return b


def _aset(bs, name, x):
    a = bs.Array(name, [1.0])
    a[0] = x
    return a.data


def encode_one(bs, acc, name, mode, x, op, full):
    fm = M.FORMATS[name]
    n = fm.nbits
    exp = fm.encode(x, mode)
    routes = enc_routes(bs, name, n, x)
    if not full:
        routes = routes[:1]
    if x != x or math.isinf(x):
        routes = [r for r in routes if r[0] != 'token'] + [('token', lambda: bs.Bits(f"{name}={'nan' if x != x else ('inf' if x > 0 else '-inf')}"), f"bitstring.Bits('{name}={x}')")][:len(routes) > 1]
    acc.state((name, mode, fx(x)))
    for rname, th, src in routes:
        got = obs(th, lambda r: int(r.bin, 2) if len(r) == n else ('len', len(r)))
        if exp == 'ValueError':
            okv = got[0] == 'exc' and got[1] in ('ValueError', 'CreationError')
        else:
            okv = got[0] == 'ok' and got[1] in exp
        acc.step(op, 1, nontrivial=int(exp != 'ValueError'), ok=int(exp != 'ValueError'), rej=int(exp == 'ValueError'))
        if not okv:
            acc.violation(op, 'value' if got[0] == 'ok' else 'exc', dict(fmt=name, mode=mode, x=fx(x), route=rname, group=f'{rname}'),
                          '\n'.join(["import bitstring", f"bitstring.options.mxfp_overflow = {mode!r}", "nan, inf = float('nan'), float('inf')"] +
                                    ([f"r = int(({src}).bin, 2)", f"assert r in {sorted(exp)!r}, r"] if exp != 'ValueError' else
                                     ["try:", f"    r = {src}", "except ValueError:", "    pass", "else:", "    assert False, r"])), sorted(exp) if exp != 'ValueError' else exp, got)
    if exp != 'ValueError':
        acc.outcome((name, mode, min(exp)))
    if len(acc.samples) < 2 and full:
        acc.sample(dict(fmt=name, mxfp_overflow=mode, x=fx(x), routes=[r[0] for r in routes]))


def reencode(bs, acc, name, mode):
    """Decoding then re-encoding any non-NaN code returns that code (except e5m2 infinities under 'saturate')."""
    fm = M.FORMATS[name]
    for code in range(1 << fm.nbits):
        v = fm.decode(code)
        if v != v:
            continue
        if name == 'e5m2mxfp' and mode == 'saturate' and math.isinf(v):
            continue
        bits = format(code, f'0{fm.nbits}b')
        got = obs(lambda: int(bs.Bits(**{name: getattr(bs.Bits(bin=bits), name)}).bin, 2))
        acc.step('reencode', 1, nontrivial=1, ok=1)
        if got != ('ok', code):
            acc.violation('reencode', 'value', dict(fmt=name, mode=mode, code=code),
                          '\n'.join(["import bitstring", f"bitstring.options.mxfp_overflow = {mode!r}", f"v = bitstring.Bits(bin={bits!r}).{name}",
                                     f"assert bitstring.Bits({name}=v).bin == {bits!r}, (v, bitstring.Bits({name}=v).bin)"]), code, got)


def run_mxint(bs, acc):
    for code in range(256):
        bits = format(code, '08b')
        exp = fx(M.mxint_decode(code))
        for rname, th, src in (('prop', lambda: bs.Bits(bin=bits).mxint, f"bitstring.Bits(bin={bits!r}).mxint"),
                               ('array', lambda: bs.Array('mxint', bs.Bits(bin=bits)).tolist()[0], f"bitstring.Array('mxint', bitstring.Bits(bin={bits!r})).tolist()[0]")):
            got = obs(th, fx)
            acc.step('mxint', 1, nontrivial=1, ok=1)
            if got != ('ok', exp):
                acc.violation('mxint', 'value', dict(code=code, route=rname, what='decode'), '\n'.join(["import bitstring", f"assert ({src}).hex() == {exp!r}"]), exp, got)
    xs = []
    for k in range(-300, 301):
        v = k / 128
        xs += [v, math.nextafter(v, math.inf), math.nextafter(v, -math.inf)]
    xs += [float('inf'), float('-inf'), float('nan'), 1e300, -1e300, 5e-324, -5e-324, 0.0, -0.0, 1.984375, 1.9921875, -2.0, -2.0078125, 1.9922]
    for x in xs:
        exp = M.mxint_encode(x)
        acc.state(('mxint', fx(x)))
        for rname, th, src in (('kw', lambda: bs.Bits(mxint=x), f"bitstring.Bits(mxint={x!r})"), ('build', lambda: bs.Dtype('mxint').build(x), f"bitstring.Dtype('mxint').build({x!r})"),
                               ('array', lambda: bs.Array('mxint', [x]).data, f"bitstring.Array('mxint', [{x!r}]).data")):
            got = obs(th, lambda r: int(r.bin, 2))
            okv = (got[0] == 'exc' and got[1] in ('ValueError', 'CreationError')) if exp == 'ValueError' else (got[0] == 'ok' and got[1] in exp)
            acc.step('mxint', 1, nontrivial=int(exp != 'ValueError'), ok=int(exp != 'ValueError'), rej=int(exp == 'ValueError'))
            if not okv:
                acc.violation('mxint', 'value', dict(x=fx(x), route=rname, what='encode', group='tie' if abs(abs(x * 64) % 1 - 0.5) < 1e-9 else ''),
                              '\n'.join(["import bitstring", "nan, inf = float('nan'), float('inf')", f"r = int(({src}).bin, 2)", f"assert r in {sorted(exp) if exp != 'ValueError' else exp!r}, r"]),
                              sorted(exp) if exp != 'ValueError' else exp, got)
        acc.outcome(('mxint', str(exp)))
    acc.sample(dict(event="Bits(mxint=k/128 +- 1ulp) for |k| <= 300"))


def run_e8m0(bs, acc):
    for code in range(256):
        bits = format(code, '08b')
        exp = fx(M.e8m0_decode(code))
        got = obs(lambda: bs.Bits(bin=bits).e8m0mxfp, fx)
        acc.step('e8m0', 1, nontrivial=1, ok=1)
        if got != ('ok', exp):
            acc.violation('e8m0', 'value', dict(code=code, what='decode'), '\n'.join(["import bitstring", f"r = bitstring.Bits(bin={bits!r}).e8m0mxfp", f"assert ('nan' if r != r else r.hex()) == {exp!r}, r"]), exp, got)
    xs = []
    for k in range(-130, 131):
        v = 2.0 ** k
        xs += [v, math.nextafter(v, math.inf), math.nextafter(v, 0), -v, 1.5 * v]
    xs += [0.0, -0.0, float('inf'), float('nan'), 3.0, 1e-300]
    for x in xs:
        exp = M.e8m0_encode(x)
        acc.state(('e8m0', fx(x)))
        for rname, th, src in (('kw', lambda: bs.Bits(e8m0mxfp=x), f"bitstring.Bits(e8m0mxfp={x!r})"), ('build', lambda: bs.Dtype('e8m0mxfp').build(x), f"bitstring.Dtype('e8m0mxfp').build({x!r})")):
            got = obs(th, lambda r: int(r.bin, 2))
            okv = (got[0] == 'exc' and got[1] in ('ValueError', 'CreationError')) if exp == 'ValueError' else (got[0] == 'ok' and got[1] in exp)
            acc.step('e8m0', 1, nontrivial=int(exp != 'ValueError'), ok=int(exp != 'ValueError'), rej=int(exp == 'ValueError'))
            if not okv:
                acc.violation('e8m0', 'value' if got[0] == 'ok' else 'exc', dict(x=fx(x), route=rname, what='encode'),
                              '\n'.join(["import bitstring", "nan, inf = float('nan'), float('inf')"] + ([f"r = int(({src}).bin, 2)", f"assert r in {sorted(exp)!r}, r"] if exp != 'ValueError' else
                                        ["try:", f"    r = {src}", "except ValueError:", "    pass", "else:", "    assert False, r"])), sorted(exp) if exp != 'ValueError' else exp, got)
        acc.outcome(('e8m0', str(exp)))


def run_bfloat_decode(bs, acc, shard):
    for c in range(shard['lo'], shard['hi']):
        exp = fx(M.bfloat_decode(c))
        be = format(c, '016b')
        le = be[8:] + be[:8]
        acc.state(('bfloat', c))
        for rname, th, src in (('bfloat', lambda: bs.Bits(bin=be).bfloat, f"bitstring.Bits(bin={be!r}).bfloat"),
                               ('bfloatbe', lambda: bs.BitArray(bin=be).bfloatbe, f"bitstring.BitArray(bin={be!r}).bfloatbe"),
                               ('bfloatle', lambda: bs.Bits(bin=le).bfloatle, f"bitstring.Bits(bin={le!r}).bfloatle"),
                               ('bfloatne', lambda: bs.ConstBitStream(bin=le).bfloatne, f"bitstring.ConstBitStream(bin={le!r}).bfloatne"),
                               ('read', lambda: bs.ConstBitStream(bin='1' + be).read(1) and None, None)):
            if src is None:
                continue
            got = obs(th, fx)
            acc.step('bfloat-decode', 1, nontrivial=1, ok=1)
            if got != ('ok', exp):
                acc.violation('bfloat-decode', 'value', dict(code=c, route=rname), '\n'.join(["import bitstring", f"r = {src}", f"assert ('nan' if r != r else r.hex()) == {exp!r}, r"]), exp, got)
        if c % 257 == 0:
            acc.outcome(('bfloat', exp))
    acc.sample(dict(event="Bits(bin=c).bfloat / bfloatbe / bfloatle(byte-swapped) / bfloatne for every 16-bit c"))


def run_bfloat_encode(bs, acc):
    xs = []
    for e in range(256):
        for m in (0, 1, 0x7fffff, 0x2aaaaa, 0x008000, 0x007fff, 0x008001, 0x018000, 0x7f8000):
            for s in (0, 1):
                xs.append(struct.unpack('>f', ((s << 31) | (e << 23) | m).to_bytes(4, 'big'))[0])
    q = acc.tier == 'quick'
    for c in range(0, 0x7f80, 7 if q else 1):
        a, b = M.bfloat_decode(c), M.bfloat_decode(c + 1)
        if math.isinf(b):
            continue
        mid = (a + b) / 2
        xs += [mid, math.nextafter(mid, math.inf), math.nextafter(mid, -math.inf), -mid]
    xs += [3.4e38, 3.5e38, 1e39, -1e39, 1.8e308, float('inf'), float('-inf'), float('nan'), 0.0, -0.0, 5e-324, 1e-46, 4.5e23]
    for x in xs:
        exp = M.bfloat_encode(x)
        acc.state(('bfloat-enc', fx(x)))
        for rname, th, src, conv in (('kw', lambda: bs.Bits(bfloat=x), f"bitstring.Bits(bfloat={x!r})", None),
                                     ('be', lambda: bs.BitArray(bfloatbe=x), f"bitstring.BitArray(bfloatbe={x!r})", None),
                                     ('le', lambda: bs.Bits(bfloatle=x), f"bitstring.Bits(bfloatle={x!r})", 'swap'),
                                     ('ne', lambda: bs.Bits(bfloatne=x), f"bitstring.Bits(bfloatne={x!r})", 'swap'),
                                     ('build', lambda: bs.Dtype('bfloat').build(x), f"bitstring.Dtype('bfloat').build({x!r})", None),
                                     ('pack', lambda: bs.pack('bfloatle', x), f"bitstring.pack('bfloatle', {x!r})", 'swap')):
            def cv(r):
                v = int(r.bin, 2)
                if conv == 'swap':
                    v = ((v & 0xff) << 8) | (v >> 8)
                return v if len(r) == 16 else ('len', len(r))
            got = obs(th, cv)
            acc.step('bfloat-encode', 1, nontrivial=1, ok=1)
            if not (got[0] == 'ok' and got[1] in exp):
                acc.violation('bfloat-encode', 'value' if got[0] == 'ok' else 'exc', dict(x=fx(x), route=rname, group=rname),
                              '\n'.join(["import bitstring", "nan, inf = float('nan'), float('inf')", f"v = int(({src}).bin, 2)"] +
                                        (["v = ((v & 0xff) << 8) | (v >> 8)"] if conv else []) + [f"assert v in {sorted(exp)!r}, hex(v)"]), sorted(exp), got)
        acc.outcome(('bfloat-enc', min(exp)))


def run_option_setter(bs, acc):
    """A rejected assignment to options.mxfp_overflow changes nothing: every sequence of <= 3 assignments (valid and invalid), then encodings."""
    import itertools
    vals = ['saturate', 'overflow', 'Overflow', '', None, 0, 'saturate ']
    probes = [('e5m2mxfp', 1e6), ('e4m3mxfp', 1000.0), ('e5m2mxfp', float('inf')), ('e4m3mxfp', -1e9)]
    n = 0
    for k in (1, 2, 3):
        for hist in itertools.product(vals, repeat=k):
            core.set_options()
            cur = 'saturate'
            for v in hist:
                try:
                    bs.options.mxfp_overflow = v
                    accepted = True
                except ValueError:
                    accepted = False
                if v in ('saturate', 'overflow'):
                    cur = v
                bad = None
                if accepted != (v in ('saturate', 'overflow')):
                    bad = f"assignment of {v!r} was {'accepted' if accepted else 'rejected'}"
                elif bs.options.mxfp_overflow != cur:
                    bad = f"setting reads {bs.options.mxfp_overflow!r} after a rejected assignment, expected {cur!r}"
                else:
                    for name, x in probes:
                        got = obs(lambda: int(bs.Bits(**{name: x}).bin, 2))
                        e = M.FORMATS[name].encode(x, cur)
                        n += 1
                        if not (got[0] == 'ok' and got[1] in e):
                            bad = f"{name}={x} encoded as {got} under {cur!r}"
                            break
                if bad:
                    acc.violation('encode', 'value', dict(history=[repr(h) for h in hist], problem=bad, group='option-setter'),
                                  '\n'.join(["import bitstring"] + [line for h in hist for line in ("try:", f"    bitstring.options.mxfp_overflow = {h!r}", "except ValueError:", "    pass")] +
                                            [f"assert bitstring.options.mxfp_overflow == {cur!r}, bitstring.options.mxfp_overflow", f"assert bitstring.Bits(e5m2mxfp=1e6).bin == bitstring.Bits(uint={sorted(M.FORMATS['e5m2mxfp'].encode(1e6, cur))[0]}, length=8).bin"]),
                                  cur, bad)
                    break
            acc.state(('option-history', tuple(map(repr, hist))))
    core.set_options()
    acc.step('encode', n, nontrivial=n, ok=n)
    acc.sample(dict(event="all sequences of <= 3 assignments to options.mxfp_overflow from 7 values (2 valid); the setting and 4 encodings after each"))


def run_scaled(bs, acc):
    scales = [2, 0.5, 2 ** -6, 3, 2 ** 10, 4]
    for name in LUT_FORMATS + ['mxint', 'bfloat']:
        for sc in scales:
            d = bs.Dtype(name, scale=sc)
            acc.state(('scaled', name, sc))
            if name in M.FORMATS:
                fm = M.FORMATS[name]
                codes = range(1 << fm.nbits)
                dec = fm.decode
                enc = lambda v: fm.encode(v, 'saturate')
                n = fm.nbits
            elif name == 'mxint':
                codes, dec, enc, n = range(256), M.mxint_decode, M.mxint_encode, 8
            else:
                codes, dec, enc, n = range(0, 65536, 251), M.bfloat_decode, M.bfloat_encode, 16
            for code in codes:
                bits = format(code, f'0{n}b')
                v = dec(code)
                exp = fx(v * sc)
                got = obs(lambda: d.parse(bs.Bits(bin=bits)), fx)
                acc.step('scaled', 1, nontrivial=1, ok=1)
                if got != ('ok', exp):
                    acc.violation('scaled', 'value', dict(fmt=name, scale=sc, code=code, what='parse'),
                                  '\n'.join(["import bitstring", f"r = bitstring.Dtype({name!r}, scale={sc!r}).parse(bitstring.Bits(bin={bits!r}))", f"assert ('nan' if r != r else r.hex()) == {exp!r}, r"]), exp, got)
                # Dtype objects where a string is usual: unpack / readlist / read with the scaled Dtype object
                if code % 7 == 0:
                    for rname, th, rsrc in (('unpack', lambda: bs.Bits(bin=bits + '1').unpack([d, 'bin'])[0], "bitstring.Bits(bin=B + '1').unpack([D, 'bin'])[0]"),
                                            ('readlist', lambda: bs.ConstBitStream(bin=bits).readlist([d])[0], "bitstring.ConstBitStream(bin=B).readlist([D])[0]"),
                                            ('read', lambda: bs.ConstBitStream(bin=bits).read(d), "bitstring.ConstBitStream(bin=B).read(D)"),
                                            ('peeklist', lambda: bs.BitStream(bin=bits).peeklist([d, d][:1])[0], "bitstring.BitStream(bin=B).peeklist([D])[0]")):
                        got = obs(th, fx)
                        acc.step('scaled', 1, nontrivial=1, ok=1)
                        if got != ('ok', exp):
                            acc.violation('scaled', 'value', dict(fmt=name, scale=sc, code=code, what=rname, group=f'scaled|{rname}'),
                                          '\n'.join(["import bitstring", f"D = bitstring.Dtype({name!r}, scale={sc!r}); B = {bits!r}", f"r = {rsrc}", f"assert ('nan' if r != r else r.hex()) == {exp!r}, r"]), exp, got)
                # array read with a scaled dtype
                if code % 5 == 0:
                    got = obs(lambda: bs.Array(d, bs.Bits(bin=bits)).tolist()[0], fx)
                    acc.step('scaled', 1, nontrivial=1, ok=1)
                    if got != ('ok', exp):
                        acc.violation('scaled', 'value', dict(fmt=name, scale=sc, code=code, what='array'),
                                      '\n'.join(["import bitstring", f"r = bitstring.Array(bitstring.Dtype({name!r}, scale={sc!r}), bitstring.Bits(bin={bits!r})).tolist()[0]",
                                                 f"assert ('nan' if r != r else r.hex()) == {exp!r}, r"]), exp, got)
            # build: a scale divides the value before encoding
            xs = [0.0, 1.0, -1.5, 0.3, 7.0, 100.0, -1000.0, 1e6, 0.01, 65504.0, 3.3, 448.0, 6.0, 57344.0, 1e-3, -0.0, 6, 7, 1, -3, 5, 100, 2 ** 40]
            for x in xs:
                e = enc(x / sc)
                got = obs(lambda: d.build(x), lambda r: int(r.bin, 2))
                okv = (got[0] == 'exc' and got[1] in ('ValueError', 'CreationError')) if e == 'ValueError' else (got[0] == 'ok' and got[1] in e)
                acc.step('scaled', 1, nontrivial=1, ok=1)
                if not okv:
                    acc.violation('scaled', 'value', dict(fmt=name, scale=sc, x=fx(x), what='build'),
                                  '\n'.join(["import bitstring", f"r = int(bitstring.Dtype({name!r}, scale={sc!r}).build({x!r}).bin, 2)", f"assert r in {sorted(e) if e != 'ValueError' else e!r}, r"]),
                                  sorted(e) if e != 'ValueError' else e, got)
    acc.sample(dict(event="Dtype('e4m3mxfp', scale=3).parse(code) == decode(code) * 3 for every code; .build(x) == encode(x / 3)"))
