#!/usr/bin/env python3
"""Write seeded/REPORT.md from the meta.json files of the confirmed seeded changes."""
import glob, json, os
root = os.path.join(os.path.dirname(os.path.abspath(__file__)), '..', 'seeded')
rows = []
for d in sorted(glob.glob(os.path.join(root, '*', ''))):
    m = json.load(open(os.path.join(d, 'meta.json')))
    name = os.path.basename(d[:-1])
    runs = [r for run in m.get('check_runs', []) for r in run.split()]
    first = runs[0] if runs else ''
    last_by_check = {}
    for r in runs:
        last_by_check[r.split(':')[0]] = r
    caught = sorted(c for c, r in last_by_check.items() if 'exit=1' in r)
    missed_first = 'exit=0' in first
    rows.append((name, m.get('property'), m.get('summary', '').replace('\n', ' ')[:150], m.get('needs', '').replace('\n', ' ')[:150], ', '.join(caught) or '-', 'yes' if missed_first else ''))
with open(os.path.join(root, 'REPORT.md'), 'w') as f:
    f.write("# Seeded property-breaking changes\n\n")
    f.write("Each directory holds patch.diff (relative to the /repo HEAD it was confirmed on), demo.py and meta.json. Every change was confirmed with tools/seed_eval.sh: "
            "the 836 tests pass with it, demo.py fails with it and passes without it, then the check was run on /repo with the patch applied and the patch reverted. "
            "'missed at first' = the first run of the check did not report it and the check was strengthened (see DESIGN.md section 7).\n\n")
    f.write("| seed | property | change | needs | caught by | missed at first |\n|---|---|---|---|---|---|\n")
    for r in rows:
        f.write("| " + " | ".join(x.replace('|', '/') for x in r) + " |\n")
    f.write(f"\n{len(rows)} changes; {sum(1 for r in rows if r[4] != '-')} reported by the quick tier of the named check; {sum(1 for r in rows if r[5])} were missed at first.\n")
print(len(rows), 'seeds')
