"""Exact reference model of the 8-bit / micro-scaling / bfloat codecs (C11). Imports nothing from bitstring.

Written from doc/exotic_floats.rst ("Conversion"), the OCP MX v1.0 format tables and the P3109 draft:
  decode: sign / biased exponent / mantissa with subnormals, per-format special values
  encode: RNE of the input to IEEE binary16 (the documented first step), then RNE to the format's grid with unbounded
          exponent, then the range test against the largest finite value and the documented overflow action.
All arithmetic on exact values: every representable value is an exact Python float with <= 11 significant bits, so sums and
differences of neighbours used for the tie test are exact in binary64; binary16 rounding itself is done with Fractions.
"""
from __future__ import annotations

import bisect
import math
import struct
from fractions import Fraction


class Fmt:
    def __init__(self, name, nbits, exp_bits, mant_bits, bias, kind):
        self.name, self.nbits, self.exp_bits, self.mant_bits, self.bias, self.kind = name, nbits, exp_bits, mant_bits, bias, kind
        self.sign_bit = 1 << (nbits - 1)
        self._tables()

    # -- decode ---------------------------------------------------------------------------
    def decode(self, code):
        """-> float (may be nan / inf). Zero sign: -0.0 where the format has a negative zero."""
        s = -1.0 if code & self.sign_bit else 1.0
        mag = code & (self.sign_bit - 1)
        e = mag >> self.mant_bits
        m = mag & ((1 << self.mant_bits) - 1)
        k = self.kind
        if k == 'p3109':
            if code == self.sign_bit:
                return float('nan')
            if mag == self.sign_bit - 1:
                return s * float('inf')
        elif k == 'e5m2':
            if e == 31:
                return s * float('inf') if m == 0 else float('nan')
        elif k == 'e4m3':
            if e == 15 and m == 7:
                return float('nan')
        if e == 0:
            v = Fraction(m, 1 << self.mant_bits) * Fraction(2) ** (1 - self.bias)
        else:
            v = (1 + Fraction(m, 1 << self.mant_bits)) * Fraction(2) ** (e - self.bias)
        return s * float(v)

    def _tables(self):
        self.nan_codes = [c for c in range(1 << self.nbits) if math.isnan(self.decode(c))]
        pos = [(self.decode(c), c) for c in range(self.sign_bit) if math.isfinite(self.decode(c))]
        pos.sort()
        self.pos_vals = [v for v, _ in pos]
        self.pos_codes = [c for _, c in pos]
        self.max_code = self.pos_codes[-1]
        self.max_val = self.pos_vals[-1]
        # next grid point beyond the largest finite value (unbounded exponent): same binade spacing
        self.ulp_top = self.pos_vals[-1] - self.pos_vals[-2]
        self.has_neg_zero = self.kind != 'p3109'

    # -- encode ---------------------------------------------------------------------------
    def overflow_code(self, negative, mode, was_inf):
        """Documented action for values out of range after rounding (and for infinities). Returns a set of acceptable codes."""
        sb = self.sign_bit if negative else 0
        k = self.kind
        if k == 'p3109':
            return {sb | (self.sign_bit - 1)}                      # +-inf
        if k == 'e5m2':
            return {sb | self.max_code} if mode == 'saturate' else {sb | 0b1111100}
        if k == 'e4m3':
            return {sb | self.max_code} if mode == 'saturate' else set(self.nan_codes)
        return {sb | self.max_code}                                # 6 and 4 bit formats saturate

    def encode(self, x, mode='saturate'):
        """x: Python float. Returns the set of acceptable codes (singleton except for NaN), or 'ValueError'."""
        if x != x:
            return set(self.nan_codes) if self.nan_codes else 'ValueError'
        h = to_binary16(x)
        neg = math.copysign(1.0, x) < 0
        if math.isinf(h):
            return self.overflow_code(neg, mode, math.isinf(x))
        return self.encode_exact(h, mode)

    def encode_exact(self, h, mode):
        """h: finite float exactly representable with <= 11 significant bits."""
        neg = math.copysign(1.0, h) < 0
        a = abs(h)
        sb = self.sign_bit if (neg and (self.has_neg_zero or True)) else 0
        vals = self.pos_vals
        if a > self.max_val:
            nxt = self.max_val + self.ulp_top
            half = self.max_val + self.ulp_top / 2
            if a < half or (a == half and self.max_code % 2 == 0):
                code = self.max_code
            else:
                return self.overflow_code(neg, mode, False)
        else:
            i = bisect.bisect_left(vals, a)
            if vals[i] == a:
                code = self.pos_codes[i]
            else:
                lo, hi = vals[i - 1], vals[i]
                d1, d2 = a - lo, hi - a
                if d1 < d2:
                    code = self.pos_codes[i - 1]
                elif d2 < d1:
                    code = self.pos_codes[i]
                else:
                    code = self.pos_codes[i - 1] if self.pos_codes[i - 1] % 2 == 0 else self.pos_codes[i]
        if code == 0 and not self.has_neg_zero:
            return {0}                                              # single zero (the sign-bit pattern is NaN)
        return {code | (self.sign_bit if neg else 0)}


def to_binary16(x):
    """RNE of a binary64 value to IEEE binary16, returned as a float (inf on overflow). Own implementation with Fractions."""
    if x != x or math.isinf(x) or x == 0:
        return x
    f = Fraction(x)
    a = abs(f)
    e = max(math.floor(math.log2(a)) if a >= 1 or True else 0, -14)
    # exact exponent: floor(log2(a)) computed robustly
    e = a.numerator.bit_length() - a.denominator.bit_length()
    if Fraction(2) ** e > a:
        e -= 1
    e = max(e, -14)
    q = Fraction(2) ** (e - 10)
    n = a / q
    fl = n.numerator // n.denominator
    rem = n - fl
    if rem > Fraction(1, 2) or (rem == Fraction(1, 2) and fl % 2 == 1):
        fl += 1
    r = fl * q
    if r > 65504:
        return math.copysign(float('inf'), x)
    return math.copysign(float(r), x)


FORMATS = {
    'p4binary': Fmt('p4binary', 8, 4, 3, 8, 'p3109'),
    'p3binary': Fmt('p3binary', 8, 5, 2, 16, 'p3109'),
    'e5m2mxfp': Fmt('e5m2mxfp', 8, 5, 2, 15, 'e5m2'),
    'e4m3mxfp': Fmt('e4m3mxfp', 8, 4, 3, 7, 'e4m3'),
    'e3m2mxfp': Fmt('e3m2mxfp', 6, 3, 2, 3, 'fin'),
    'e2m3mxfp': Fmt('e2m3mxfp', 6, 2, 3, 1, 'fin'),
    'e2m1mxfp': Fmt('e2m1mxfp', 4, 2, 1, 1, 'fin'),
}


# ---- mxint, e8m0, bfloat ----------------------------------------------------------------
def mxint_decode(code):
    v = code - 256 if code >= 128 else code
    return v / 64.0


def round_half_even(fr):
    fl = math.floor(fr)
    rem = fr - fl
    if rem > Fraction(1, 2) or (rem == Fraction(1, 2) and fl % 2 == 1):
        fl += 1
    return fl


def mxint_encode(x):
    if x != x:
        return 'ValueError'
    if math.isinf(x):
        return {0x7f} if x > 0 else {0x80}
    n = round_half_even(Fraction(x) * 64)
    n = max(-128, min(127, n))
    return {n & 0xff}


def e8m0_decode(code):
    return float('nan') if code == 255 else 2.0 ** (code - 127)


def e8m0_encode(x):
    if x != x:
        return {255}
    if x <= 0 or math.isinf(x):
        return 'ValueError'
    m, e = math.frexp(x)
    if m != 0.5:
        return 'ValueError'
    k = e - 1
    if not -127 <= k <= 127:
        return 'ValueError'
    return {k + 127}


def bfloat_decode(code16):
    return struct.unpack('>f', code16.to_bytes(2, 'big') + b'\x00\x00')[0]


def bfloat_encode(x):
    """truncated float32 (RNE to binary32 first, overflow -> +-inf)."""
    try:
        b = struct.pack('>f', x)
    except OverflowError:
        b = struct.pack('>f', math.copysign(float('inf'), x))
    c = int.from_bytes(b[:2], 'big')
    if x != x:
        return {c2 for c2 in (c, c | 0x8000, c & 0x7fff)}
    return {c}


def selftest():
    # binary16 rounding against struct (trusted, named as the definition in C02)
    import random
    rnd = random.Random(1)
    tests = [0.1, 1 / 3, 65504.0, 65519.99, 65520.0, 5.9e-8, 2.98e-8, 2.9802322387695312e-08, 2.9802322387695316e-08, 1e-10, -1e-10, 1024.5, 2049.0, 2051.0]
    for _ in range(3000):
        tests.append(rnd.uniform(-70000, 70000))
        tests.append(rnd.uniform(-1, 1) * 10 ** rnd.uniform(-9, 1))
    for t in tests:
        try:
            s = struct.unpack('>e', struct.pack('>e', t))[0]
        except OverflowError:
            s = math.copysign(float('inf'), t)
        assert to_binary16(t) == s and math.copysign(1, to_binary16(t)) == math.copysign(1, s), (t, to_binary16(t), s)
    f = FORMATS
    # values printed in doc/exotic_floats.rst for p4binary8
    doc = {0: 0.0, 1: 0.0009765625, 8: 0.0078125, 64: 1.0, 65: 1.125, 126: 224.0, 129: -0.0009765625, 254: -224.0}
    for c, v in doc.items():
        assert f['p4binary'].decode(c) == v, (c, f['p4binary'].decode(c))
    assert math.isinf(f['p4binary'].decode(127)) and math.isnan(f['p4binary'].decode(128)) and f['p4binary'].decode(255) == float('-inf')
    assert f['e5m2mxfp'].max_val == 57344 and f['e4m3mxfp'].max_val == 448 and f['e3m2mxfp'].max_val == 28 and f['e2m3mxfp'].max_val == 7.5 and f['e2m1mxfp'].max_val == 6
    assert f['p4binary'].max_val == 224 and f['p3binary'].max_val == 49152
    assert f['e2m1mxfp'].pos_vals == [0.0, 0.5, 1.0, 1.5, 2.0, 3.0, 4.0, 6.0]
    assert f['e4m3mxfp'].encode(1000.0, 'saturate') == {0x7e} and f['e4m3mxfp'].encode(1000.0, 'overflow') == {0x7f, 0xff}
    assert f['e5m2mxfp'].encode(float('inf'), 'saturate') == {0x7b} and f['e5m2mxfp'].encode(-1e6, 'overflow') == {0xfc}
    assert f['p4binary'].encode(232.0) == {126} and f['p4binary'].encode(232.5) == {127} and f['p4binary'].encode(-0.0) == {0}
    assert f['e2m1mxfp'].encode(-0.0) == {8} and f['e2m1mxfp'].encode(0.25) == {0} and f['e2m1mxfp'].encode(0.75) == {2} and f['e2m1mxfp'].encode(100.0) == {7}
    assert mxint_encode(1 / 128) == {0} and mxint_encode(3 / 128) == {2} and mxint_encode(-2.5) == {0x80} and mxint_encode(1 / 128 + 2 ** -58) == {1}
    assert e8m0_encode(1.0) == {127} and e8m0_encode(3.0) == 'ValueError' and e8m0_decode(0) == 2.0 ** -127
    assert bfloat_encode(4.5e23) == {0x66be}, bfloat_encode(4.5e23)
