#!/bin/bash
# usage: tools/benign_eval.sh <dir with patch.diff meta.json> [tier]
# A behaviour-preserving change: confirm the test suite passes with it in a scratch worktree of /repo HEAD, then run EVERY check
# against that worktree (BSMC_REPO; /repo is not touched, evidence goes to a scratch directory) and report which checks alarm.
# Kept under /verif/benign/<name>/ with the results.
set -u
src=$(realpath "$1"); tier=${2:-quick}
name=$(basename "$src")
wt=/tmp/benignwt-$$
git -C /repo worktree add -q --detach $wt HEAD || exit 2
trap 'git -C /repo worktree remove --force $wt >/dev/null 2>&1; rm -rf /tmp/benign-ev-$$' EXIT
cd $wt
if ! git apply --check "$src/patch.diff" 2>/dev/null; then echo "BENIGN $name: patch does not apply to current HEAD"; exit 3; fi
git apply "$src/patch.diff"
tests=$(/venv/bin/python -m pytest -q -p no:cacheprovider -n 8 2>&1 | tail -1)
git checkout -q -- tests 2>/dev/null
cd /verif
echo "BENIGN $name: tests='$tests'"
case "$tests" in *failed*|*error*) echo "BENIGN $name: REJECTED (tests fail)"; exit 4;; esac
results=""
for i in $(seq -w 1 20); do
  p=C$i
  out=$(BSMC_REPO=$wt BSMC_EVIDENCE_DIR=/tmp/benign-ev-$$ ./check $p $tier 2>&1); rc=$?
  nv=$(echo "$out" | grep -c '^VIOLATION')
  results="$results $p:$rc:$nv"
  if [ $rc -ne 0 ]; then
    echo "BENIGN $name: ALARM check $p $tier exit=$rc violations=$nv"
    echo "$out" | grep -A1 '^VIOLATION' | head -8
    echo "$out" | grep -A3 'HARNESS-ERROR' | head -8
    mkdir -p /tmp/benign-alarms/$name; for f in $(echo "$out" | grep '^VIOLATION' | sed 's/.*replay=//' | head -5); do cp $f /tmp/benign-alarms/$name/ 2>/dev/null; done
  fi
done
echo "BENIGN $name: results:$results"
mkdir -p /verif/benign/$name
cp "$src/patch.diff" /verif/benign/$name/
python3 - "$src/meta.json" /verif/benign/$name/meta.json "$tests" "$results" <<'PY'
import json, sys
m = json.load(open(sys.argv[1]))
m['test_suite_with_change'] = sys.argv[3]
m['check_runs'] = sys.argv[4].split()
m['alarms'] = [r.split(':')[0] for r in sys.argv[4].split() if r.split(':')[1] != '0']
json.dump(m, open(sys.argv[2], 'w'), indent=1)
PY
