"""Reference exp-Golomb codecs written from H.264 9.1 (ue/se) and the Dirac spec (uie/sie).
Encoders return bit strings; decoders are prefix parsers returning (value, consumed) or None on truncation."""
from __future__ import annotations

KINDS = ('ue', 'se', 'uie', 'sie')
UNSIGNED = ('ue', 'uie')


def enc_ue(k):
    assert k >= 0
    b = format(k + 1, 'b')
    return '0' * (len(b) - 1) + b


def enc_se(v):
    return enc_ue(2 * v - 1 if v > 0 else -2 * v)


def enc_uie(k):
    assert k >= 0
    b = format(k + 1, 'b')
    return ''.join('0' + c for c in b[1:]) + '1'


def enc_sie(v):
    if v == 0:
        return '1'
    return enc_uie(abs(v)) + ('1' if v < 0 else '0')


ENC = dict(ue=enc_ue, se=enc_se, uie=enc_uie, sie=enc_sie)


def dec_ue(s, p=0):
    n = 0
    while True:
        if p + n >= len(s):
            return None
        if s[p + n] == '1':
            break
        n += 1
    if p + 2 * n + 1 > len(s):
        return None
    return int(s[p + n:p + 2 * n + 1], 2) - 1, 2 * n + 1


def dec_se(s, p=0):
    r = dec_ue(s, p)
    if r is None:
        return None
    k, n = r
    return ((k + 1) // 2 if k % 2 else -(k // 2)), n


def dec_uie(s, p=0):
    x, q = 1, p
    while True:
        if q >= len(s):
            return None
        if s[q] == '1':
            return x - 1, q + 1 - p
        if q + 1 >= len(s):
            return None
        x = (x << 1) | int(s[q + 1])
        q += 2


def dec_sie(s, p=0):
    r = dec_uie(s, p)
    if r is None:
        return None
    k, n = r
    if k == 0:
        return 0, n
    if p + n >= len(s):
        return None
    return (-k if s[p + n] == '1' else k), n + 1


DEC = dict(ue=dec_ue, se=dec_se, uie=dec_uie, sie=dec_sie)

# the documentation's literal tables (doc/exp-golomb.rst)
DOC_UE_SE = [('1', 0, 0), ('010', 1, 1), ('011', 2, -1), ('00100', 3, 2), ('00101', 4, -2), ('00110', 5, 3), ('00111', 6, -3),
             ('0001000', 7, 4), ('0001001', 8, -4), ('0001010', 9, 5), ('0001011', 10, -5), ('0001100', 11, 6)]
DOC_UIE = [('1', 0), ('001', 1), ('011', 2), ('00001', 3), ('00011', 4), ('01001', 5), ('01011', 6), ('0000001', 7),
           ('0000011', 8), ('0001001', 9)]
DOC_SIE = [('1', 0), ('0010', 1), ('0011', -1), ('0110', 2), ('0111', -2), ('000010', 3), ('000011', -3), ('000110', 4),
           ('000111', -4), ('010010', 5), ('010011', -5)]


def selftest():
    for bits, u, s in DOC_UE_SE:
        assert enc_ue(u) == bits and enc_se(s) == bits and dec_ue(bits) == (u, len(bits)) and dec_se(bits) == (s, len(bits))
    for bits, u in DOC_UIE:
        assert enc_uie(u) == bits and dec_uie(bits) == (u, len(bits)), bits
    for bits, s in DOC_SIE:
        assert enc_sie(s) == bits and dec_sie(bits) == (s, len(bits)), bits
    ex, p, out = '001001101101101011000100100101', 0, []
    while p < len(ex):
        v, n = dec_ue(ex, p)
        out.append(v)
        p += n
    assert out == [3, 0, 0, 2, 2, 1, 0, 0, 8, 4]
    for k in KINDS:
        for v in range(-300, 300):
            if v < 0 and k in UNSIGNED:
                continue
            c = ENC[k](v)
            assert DEC[k](c) == (v, len(c))
            assert all(DEC[k](c[:i]) is None for i in range(len(c)))     # prefix-free / truncation
