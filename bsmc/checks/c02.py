"""C02 - value <-> bits round trip and canonical encoding for every fixed dtype (product explorer).

state  = (dtype, length, value)        event = creation route x class | reading route x class
oracle = independent encoders: int arithmetic / format(), struct.pack, byte reversal for little-endian.
"""
from __future__ import annotations

import math
import struct
import sys

from .. import core, families, routes as RT
from ..util import CLASSES, obs

PROPERTY = 'C02'
VACUITY = dict(need_ok=['create', 'read', 'pattern'], min_outcomes=500)
NE_IS_LE = sys.byteorder == 'little'


def describe(tier):
    q = tier == 'quick'
    return dict(bounds=dict(int_lengths='1..17 + 24,31,32,33,63,64,65' + ('' if q else ' + 18..130, 255,256,257,1000'),
                            values='all values for widths <= %d; above: 0, +-1, +-2, min, min+1, max, max-1, 2**k, 2**k-1 (byte multiples k), 0x55.., 0xAA..' % (8 if q else 13),
                            floats='all 65536 binary16 patterns; binary32/64: every exponent x mantissa in {0,1,all-ones,0101..} x sign; +-0, +-inf, nan, subnormals',
                            routes_create=[r[0] for r in CREATE], routes_read=[r[0] for r in READ], classes=list(CLASSES),
                            patterns='every bit pattern of every valid width <= %d for each dtype: interpret then rebuild' % (10 if q else 14)),
                rule='each (dtype, length, value, route, class) executed once; every case is non-trivial (in-range values only; out-of-range is C15)',
                assumptions=['int arithmetic, format() and struct.pack are the definition of the canonical encodings',
                             'native-endian expectations derived from sys.byteorder (only little-endian can be run here)'])


# ---------------------------------------------------------------------------- reference encoders
def enc_int(v, n):
    return format(v & ((1 << n) - 1), f'0{n}b')


def rev_bytes(bits):
    return ''.join(reversed([bits[i:i + 8] for i in range(0, len(bits), 8)]))


def dec_uint(bits):
    return int(bits, 2)


def dec_int(bits):
    v = int(bits, 2)
    return v - (1 << len(bits)) if bits[0] == '1' else v


FPK = {16: 'e', 32: 'f', 64: 'd'}


def enc_float(v, n, le=False):
    b = struct.pack(('<' if le else '>') + FPK[n], v)
    return ''.join(format(x, '08b') for x in b)


def dec_float(bits, le=False):
    n = len(bits)
    return struct.unpack(('<' if le else '>') + FPK[n], int(bits, 2).to_bytes(n // 8, 'big'))[0]


class Spec:
    def __init__(self, name, aliases, legal, enc, dec, vsrc, kind):
        self.name, self.aliases, self.legal, self.enc, self.dec, self.vsrc, self.kind = name, aliases, legal, enc, dec, vsrc, kind


def _le(f):
    return lambda v, n: rev_bytes(f(v, n))


SPECS = {
    'uint': Spec('uint', ['u'], lambda n: n >= 1, enc_int, dec_uint, repr, 'uint'),
    'int': Spec('int', ['i'], lambda n: n >= 1, enc_int, dec_int, repr, 'int'),
    'uintbe': Spec('uintbe', [], lambda n: n >= 8 and n % 8 == 0, enc_int, dec_uint, repr, 'uint'),
    'intbe': Spec('intbe', [], lambda n: n >= 8 and n % 8 == 0, enc_int, dec_int, repr, 'int'),
    'uintle': Spec('uintle', ['uintne'] if NE_IS_LE else [], lambda n: n >= 8 and n % 8 == 0, _le(enc_int), lambda b: dec_uint(rev_bytes(b)), repr, 'uint'),
    'intle': Spec('intle', ['intne'] if NE_IS_LE else [], lambda n: n >= 8 and n % 8 == 0, _le(enc_int), lambda b: dec_int(rev_bytes(b)), repr, 'int'),
    'hex': Spec('hex', ['h'], lambda n: n % 4 == 0, lambda v, n: enc_int(int(v, 16), n) if n else '', lambda b: format(int(b, 2), f'0{len(b) // 4}x') if b else '', str, 'hex'),
    'oct': Spec('oct', ['o'], lambda n: n % 3 == 0, lambda v, n: enc_int(int(v, 8), n) if n else '', lambda b: format(int(b, 2), f'0{len(b) // 3}o') if b else '', str, 'oct'),
    'bin': Spec('bin', ['b'], lambda n: True, lambda v, n: v, lambda b: b, str, 'bin'),
    'float': Spec('float', ['floatbe', 'f'], lambda n: n in (16, 32, 64), lambda v, n: enc_float(v, n), lambda b: dec_float(b), repr, 'float'),
    'floatle': Spec('floatle', ['floatne'] if NE_IS_LE else [], lambda n: n in (16, 32, 64), lambda v, n: enc_float(v, n, True), lambda b: dec_float(b, True), repr, 'float'),
}


def fkey(v):
    if isinstance(v, float):
        return ('f', 'nan' if v != v else v.hex())
    return v


def int_values(kind, n, full_width):
    if kind == 'uint':
        lo, hi = 0, (1 << n) - 1
    else:
        lo, hi = -(1 << (n - 1)), (1 << (n - 1)) - 1
    if n <= full_width:
        return list(range(lo, hi + 1))
    vals = {0, 1, 2, -1, -2, lo, lo + 1, hi, hi - 1, int('55' * ((n + 7) // 8), 16) & hi, int('aa' * ((n + 7) // 8), 16) & hi}
    for k in range(8, n + 1, 8):
        vals.update({(1 << k), (1 << k) - 1, -(1 << k), (1 << (k - 1))})
    return sorted(v for v in vals if lo <= v <= hi)


def float_values(n):
    out = []
    if n == 16:
        for p in range(65536):
            out.append(struct.unpack('>e', p.to_bytes(2, 'big'))[0])
        return out
    eb, mb = (8, 23) if n == 32 else (11, 52)
    ones = (1 << mb) - 1
    alt = int('01' * 32, 2) & ones
    for e in range(1 << eb):
        for m in (0, 1, ones, alt):
            for s in (0, 1):
                p = (s << (n - 1)) | (e << mb) | m
                out.append(struct.unpack('>' + FPK[n], p.to_bytes(n // 8, 'big'))[0])
    out += [0.1, -1.5, 1e-320 if n == 64 else 1e-45, 3.4028234663852886e+38, 65504.0, 1 / 3]
    return out


# ---------------------------------------------------------------------------- routes
# creation: (name, fn(bs, cls, dname, n, v, vs) -> object, source template)
def _setsized(bs, cls, dn, n, v):
    x = getattr(bs, cls)()
    setattr(x, f'{dn}{n}', v)
    return x


def _setlen(bs, cls, dn, n, v):
    x = getattr(bs, cls)(n)
    setattr(x, dn, v)
    return x


CREATE = [
    ('kw+length', lambda bs, cls, dn, n, v, vs: getattr(bs, cls)(**{dn: v}, length=n), "bitstring.{cls}({dn}={vs}, length={n})", False),
    ('kw-sized', lambda bs, cls, dn, n, v, vs: getattr(bs, cls)(**{f'{dn}{n}': v}), "bitstring.{cls}({dn}{n}={vs})", False),
    ('setattr-sized', lambda bs, cls, dn, n, v, vs: _setsized(bs, cls, dn, n, v), "(lambda x: (setattr(x, '{dn}{n}', {vs}), x)[1])(bitstring.{cls}())", True),
    ('setattr-len', lambda bs, cls, dn, n, v, vs: _setlen(bs, cls, dn, n, v), "(lambda x: (setattr(x, '{dn}', {vs}), x)[1])(bitstring.{cls}({n}))", True),
    ('token-colon', lambda bs, cls, dn, n, v, vs: getattr(bs, cls)(f'{dn}:{n}={vs}'), "bitstring.{cls}('{dn}:{n}={vs}')", False),
    ('token-sized', lambda bs, cls, dn, n, v, vs: getattr(bs, cls)(f'{dn}{n}={vs}'), "bitstring.{cls}('{dn}{n}={vs}')", False),
    ('dtype-build', lambda bs, cls, dn, n, v, vs: bs.Dtype(dn, n).build(v), "bitstring.Dtype('{dn}', {n}).build({vs})", False),
    ('dtype-sized-build', lambda bs, cls, dn, n, v, vs: bs.Dtype(f'{dn}{n}').build(v), "bitstring.Dtype('{dn}{n}').build({vs})", False),
    ('pack-list', lambda bs, cls, dn, n, v, vs: bs.pack([f'{dn}:{n}', 'uint:4', 'bin:2'], v, 9, '10')[:n], "bitstring.pack(['{dn}:{n}', 'uint:4', 'bin:2'], {vs}, 9, '10')[:{n}]", False),
    ('pack', lambda bs, cls, dn, n, v, vs: bs.pack(f'{dn}:{n}', v), "bitstring.pack('{dn}:{n}', {vs})", False),
    ('pack-token', lambda bs, cls, dn, n, v, vs: bs.pack(f'{dn}:{n}={vs}'), "bitstring.pack('{dn}:{n}={vs}')", False),
    ('pack-kwlen', lambda bs, cls, dn, n, v, vs: bs.pack(f'{dn}:k', v, k=n), "bitstring.pack('{dn}:k', {vs}, k={n})", False),
    ('pack-kwval', lambda bs, cls, dn, n, v, vs: bs.pack(f'{dn}:{n}=val', val=v), "bitstring.pack('{dn}:{n}=val', val={vs})", False),
    ('fromstring', lambda bs, cls, dn, n, v, vs: getattr(bs, cls).fromstring(f'{dn}{n}={vs}'), "bitstring.{cls}.fromstring('{dn}{n}={vs}')", False),
    ('array', lambda bs, cls, dn, n, v, vs: bs.Array(f'{dn}{n}', [v]).data, "bitstring.Array('{dn}{n}', [{vs}]).data", False),
]

READ = [
    ('prop', lambda bs, o, dn, n: getattr(o, dn), "o.{dn}"),
    ('prop-sized', lambda bs, o, dn, n: getattr(o, f'{dn}{n}'), "o.{dn}{n}"),
    ('dtype-parse', lambda bs, o, dn, n: bs.Dtype(dn, n).parse(o), "bitstring.Dtype('{dn}', {n}).parse(o)"),
    ('unpack', lambda bs, o, dn, n: o.unpack(f'{dn}:{n}')[0], "o.unpack('{dn}:{n}')[0]"),
    ('unpack-lenless', lambda bs, o, dn, n: o.unpack(dn)[0], "o.unpack('{dn}')[0]"),
    ('read', lambda bs, o, dn, n: bs.ConstBitStream(o).read(f'{dn}{n}'), "bitstring.ConstBitStream(o).read('{dn}{n}')"),
    ('readlist', lambda bs, o, dn, n: bs.BitStream(o).readlist([f'{dn}:{n}'])[0], "bitstring.BitStream(o).readlist(['{dn}:{n}'])[0]"),
    ('peek', lambda bs, o, dn, n: bs.ConstBitStream(o).peek(bs.Dtype(dn, n)), "bitstring.ConstBitStream(o).peek(bitstring.Dtype('{dn}', {n}))"),
    ('array', lambda bs, o, dn, n: bs.Array(f'{dn}{n}', o)[0], "bitstring.Array('{dn}{n}', o)[0]"),
    ('read-dtype', lambda bs, o, dn, n: bs.ConstBitStream(o).read(bs.Dtype(dn, n)), "bitstring.ConstBitStream(o).read(bitstring.Dtype('{dn}', {n}))"),
    ('readlist-dtype', lambda bs, o, dn, n: bs.BitStream(o).readlist([bs.Dtype(f'{dn}{n}')])[0], "bitstring.BitStream(o).readlist([bitstring.Dtype('{dn}{n}')])[0]"),
    ('dtype-of-dtype', lambda bs, o, dn, n: bs.Dtype(bs.Dtype(dn, n)).parse(o), "bitstring.Dtype(bitstring.Dtype('{dn}', {n})).parse(o)"),
    # a length-less token reads the rest of the stream, whether it is given as a string or as a Dtype object
    ('read-lenless', lambda bs, o, dn, n: bs.ConstBitStream(o).read(dn), "bitstring.ConstBitStream(o).read('{dn}')"),
    ('read-dtype-lenless', lambda bs, o, dn, n: bs.ConstBitStream(o).read(bs.Dtype(dn)), "bitstring.ConstBitStream(o).read(bitstring.Dtype('{dn}'))"),
    ('peek-dtype-lenless', lambda bs, o, dn, n: bs.BitStream(o).peek(bs.Dtype(dn)), "bitstring.BitStream(o).peek(bitstring.Dtype('{dn}'))"),
    ('unpack-dtype-lenless', lambda bs, o, dn, n: o.unpack([bs.Dtype(dn)])[0], "o.unpack([bitstring.Dtype('{dn}')])[0]"),
]


def shards(tier, seed):
    q = tier == 'quick'
    out = []
    int_lengths = list(range(1, 18)) + [24, 31, 32, 33, 63, 64, 65]
    if not q:
        int_lengths = sorted(set(int_lengths + list(range(18, 131)) + [255, 256, 257, 1000]))
    for name in ('uint', 'int', 'uintbe', 'intbe', 'uintle', 'intle', 'hex', 'oct', 'bin'):
        sp = SPECS[name]
        for n in int_lengths:
            if sp.legal(n) and not (name in ('hex', 'oct', 'bin') and n > 130):
                out.append(dict(kind='ints', dtype=name, n=n))
    for name in ('float', 'floatle'):
        for n in (16, 32, 64):
            parts = 8 if n == 16 else 2
            for part in range(parts):
                out.append(dict(kind='floats', dtype=name, n=n, part=part, parts=parts))
    out.append(dict(kind='misc'))
    for name in SPECS:
        out.append(dict(kind='patterns', dtype=name))
    return out


_CTX = None
READ_VIEW_ROUTES = ('file_len', 'file_off3_len', 'bytes_off3', 'bytesio', 'stepslice', 'bitarray_le')


def run_shard(shard, acc):
    global _CTX
    _CTX = RT.Ctx()
    try:
        _run_shard(shard, acc)
    finally:
        _CTX.close()
        _CTX = None


def _run_shard(shard, acc):
    bs = core.import_bitstring()
    q = acc.tier == 'quick'
    with core.watchdog(1500):
        k = shard['kind']
        if k == 'ints':
            sp = SPECS[shard['dtype']]
            n = shard['n']
            if sp.kind in ('uint', 'int'):
                vals = int_values(sp.kind, n, 8 if q else 13)
            else:
                base = int_values('uint', n, 7 if q else 11) if n else [0]
                if sp.kind == 'hex':
                    vals = [format(v, f'0{n // 4}x') for v in base]
                elif sp.kind == 'oct':
                    vals = [format(v, f'0{n // 3}o') for v in base]
                else:
                    vals = [format(v, f'0{n}b') if n else '' for v in base]
            for i, v in enumerate(vals):
                one_value(bs, acc, sp, n, v, full=(len(vals) <= 64 or i % 16 == 0 or i >= len(vals) - 2))
        elif k == 'floats':
            sp = SPECS[shard['dtype']]
            vals = float_values(shard['n'])
            for i, v in enumerate(vals):
                if i % shard['parts'] == shard['part']:
                    one_value(bs, acc, sp, shard['n'], v, full=(i % (97 if q else 5) == 0))
        elif k == 'misc':
            misc(bs, acc)
        else:
            patterns(bs, acc, SPECS[shard['dtype']], 10 if q else 14)


def veq(a, b):
    if isinstance(a, float) and isinstance(b, float):
        return (a != a and b != b) or (a == b and math.copysign(1, a) == math.copysign(1, b))
    return type(a) is type(b) and a == b


def one_value(bs, acc, sp, n, v, full):
    exp = sp.enc(v, n)
    vs = sp.vsrc(v)
    names = [sp.name] + (sp.aliases if full else sp.aliases[:1])
    acc.state((sp.name, n, fkey(v)))
    nan = isinstance(v, float) and v != v
    for di, dn in enumerate(names):
        routes = CREATE if (full or di == 0) else CREATE[:2]
        for ri, (rname, fn, src, mutable_only) in enumerate(routes):
            if not full and ri not in (0, 1, 4, 8, 9) and (ri + n) % 5:
                continue
            if sp.kind in ('hex', 'oct', 'bin') and rname in ('kw-sized', 'setattr-sized', 'token-sized', 'dtype-sized-build', 'fromstring', 'array') and n == 0:
                continue
            if rname == 'array' and (n == 0 or sp.kind == 'bin' and False):
                continue
            for ci, cls in enumerate(CLASSES):
                if mutable_only and cls in ('Bits', 'ConstBitStream'):
                    continue
                if '{cls}' not in src and ci:
                    continue
                if not full and ci != (n + ri) % 4 and '{cls}' in src:
                    continue
                if rname == 'setattr-len' and n == 0:
                    continue
                got = obs(lambda: fn(bs, cls, dn, n, v, vs), lambda r: r.bin)
                acc.step('create', 1, nontrivial=1, ok=1)
                if nan and got[0] == 'ok' and len(got[1]) == n:
                    ok_ = math.isnan(dec_float(got[1], sp.name == 'floatle'))
                else:
                    ok_ = got == ('ok', exp)
                if not ok_:
                    acc.violation('create', 'value' if got[0] == 'ok' else 'exc', dict(dtype=dn, n=n, value=str(fkey(v))[:60], route=rname, cls=cls, group=f'{rname}|{sp.kind}'),
                                  '\n'.join(["import bitstring", "nan, inf = float('nan'), float('inf')", f"r = ({src.format(cls=cls, dn=dn, n=n, vs=vs)}).bin",
                                             f"assert r == {exp!r}, r"]), exp, got)
    # history: build into a mutable owner, mutate it in place, build the same value again (a store shared with a memo would show)
    if full:
        for cls in ('BitArray', 'BitStream'):
            for rname, fn, src, _m in CREATE[:4] + [r for r in CREATE if r[0] in ('fromstring', 'token-sized', 'pack', 'dtype-build')]:
                if rname == 'setattr-len' and n == 0 or (n == 0 and rname in ('kw-sized', 'setattr-sized')):
                    continue
                try:
                    x = fn(bs, cls, sp.name, n, v, vs)
                    x.invert()
                    x.append('0b1')
                except Exception:  # noqa: BLE001 - reported by the creation comparison above
                    continue
                again = obs(lambda: fn(bs, cls, sp.name, n, v, vs).bin)
                other = obs(lambda: bs.Bits(**{sp.name: v}, length=n).bin if n or sp.kind not in ('hex', 'oct', 'bin') else bs.Bits(**{sp.name: v}).bin)
                acc.step('create', 2, nontrivial=2, ok=2)
                okk = (again == ('ok', exp) and other == ('ok', exp)) or (nan and again[0] == other[0] == 'ok')
                if not okk:
                    acc.violation('create', 'value', dict(dtype=sp.name, n=n, value=str(fkey(v))[:60], route=rname, cls=cls, group='after-mutating-earlier-result'),
                                  '\n'.join(["import bitstring", "nan, inf = float('nan'), float('inf')", f"x = {src.format(cls=cls, dn=sp.name, n=n, vs=vs)}", "x.invert(); x.append('0b1')",
                                             f"y = {src.format(cls=cls, dn=sp.name, n=n, vs=vs)}", f"assert y.bin == {exp!r}, y.bin"]), exp, (again, other))
    # reading routes on objects built from the reference encoding (the value read back is the decoded encoding: a float that
    # is not representable in the width reads back as its struct rounding)
    v = sp.dec(exp)
    vs = sp.vsrc(v)
    nan = isinstance(v, float) and v != v
    objs = [(cls, getattr(bs, cls)(bin=exp), f"bitstring.{cls}(bin={exp!r})") for cls in (CLASSES if full else (CLASSES[n % 4],))]
    if full and n <= 72:
        # the same bits as a window onto a longer source or a derived object (reading must not depend on where the bits live)
        for ri, r in enumerate(READ_VIEW_ROUTES):
            cls = CLASSES[(n + ri) % 4]
            o = RT.build(bs, r, cls, exp, _CTX)
            if o is not None:
                objs.append((cls, o, RT.source(r, cls, exp)))
    for cls, o, osrc in objs:
        for dn in names:
            for rname, fn, src in READ:
                if rname in ('prop-sized', 'array', 'readlist-dtype') and n == 0:
                    continue
                if rname == 'unpack-lenless' and sp.kind == 'float' and False:
                    continue
                got = obs(lambda: fn(bs, o, dn, n))
                acc.step('read', 1, nontrivial=1, ok=1)
                if not (got[0] == 'ok' and veq(got[1], v)):
                    acc.violation('read', 'value' if got[0] == 'ok' else 'exc', dict(dtype=dn, n=n, value=str(fkey(v))[:60], route=rname, cls=cls, group=f'{rname}|{sp.kind}'),
                                  '\n'.join([RT.SNIPPET_PRELUDE, "nan, inf = float('nan'), float('inf')", f"o = {osrc}",
                                             f"r = {src.format(dn=dn, n=n)}", f"assert (r != r and {nan}) or (type(r) is type({vs}) and r == {vs} and repr(r) == repr({vs})), r"]), fkey(v), got)
    acc.outcome((sp.name, n, exp[:24], len(exp)))
    if len(acc.samples) < 2 and full:
        acc.sample(dict(dtype=sp.name, length=n, value=str(fkey(v))[:40], create_routes=len(CREATE), read_routes=len(READ)))


def misc(bs, acc):
    """bytes, bool, bits: values that cannot be spelled as numbers."""
    for cls in CLASSES:
        c = getattr(bs, cls)
        for by in (b'', b'\x00', b'\xb2', b'ab', b'\x00\xff\x80', bytes(range(17))):
            exp = ''.join(format(x, '08b') for x in by)
            n = len(by)
            routes = [('kw', lambda: c(bytes=by), f"bitstring.{cls}(bytes={by!r})"), ('auto', lambda: c(by), f"bitstring.{cls}({by!r})"),
                      ('pack', lambda: bs.pack(f'bytes:{n}', by), f"bitstring.pack('bytes:{n}', {by!r})"), ('pack-lenless', lambda: bs.pack('bytes', by), f"bitstring.pack('bytes', {by!r})"),
                      ('build', lambda: bs.Dtype('bytes', n).build(by), f"bitstring.Dtype('bytes', {n}).build({by!r})"),
                      ('kw-sized', lambda: c(**{f'bytes{n}': by}), f"bitstring.{cls}(bytes{n}={by!r})")]
            for rname, th, src in routes:
                if rname in ('kw-sized',) and n == 0:
                    continue
                got = obs(th, lambda r: r.bin)
                acc.step('create', 1, nontrivial=1, ok=1)
                if got != ('ok', exp):
                    acc.violation('create', 'value' if got[0] == 'ok' else 'exc', dict(dtype='bytes', n=n, route=rname, cls=cls, group=f'{rname}|bytes'),
                                  '\n'.join(["import bitstring", f"assert ({src}).bin == {exp!r}"]), exp, got)
            o = c(bin=exp)
            for rname, th, src in [('prop', lambda: o.bytes, "o.bytes"), ('tobytes', lambda: o.tobytes(), "o.tobytes()"), ('unpack', lambda: o.unpack(f'bytes:{n}')[0], f"o.unpack('bytes:{n}')[0]"),
                                   ('unpack-lenless', lambda: o.unpack('bytes')[0], "o.unpack('bytes')[0]"), ('parse', lambda: bs.Dtype('bytes', n).parse(o), f"bitstring.Dtype('bytes', {n}).parse(o)"),
                                   ('read', lambda: bs.ConstBitStream(o).read(f'bytes{n}'), f"bitstring.ConstBitStream(o).read('bytes{n}')"),
                                   ('read-dtype', lambda: bs.ConstBitStream(o).read(bs.Dtype('bytes', n)), f"bitstring.ConstBitStream(o).read(bitstring.Dtype('bytes', {n}))"),
                                   ('peek-dtype', lambda: bs.BitStream(o).peek(bs.Dtype(f'bytes{n}')), f"bitstring.BitStream(o).peek(bitstring.Dtype('bytes{n}'))"),
                                   ('readlist-dtype', lambda: bs.ConstBitStream(o).readlist([bs.Dtype('bytes', n)])[0], f"bitstring.ConstBitStream(o).readlist([bitstring.Dtype('bytes', {n})])[0]"),
                                   ('unpack-dtype', lambda: o.unpack([bs.Dtype('bytes', n)])[0], f"o.unpack([bitstring.Dtype('bytes', {n})])[0]"),
                                   ('dtype-of-dtype', lambda: bs.Dtype(bs.Dtype('bytes', n)).parse(o), f"bitstring.Dtype(bitstring.Dtype('bytes', {n})).parse(o)")]:
                if rname in ('read', 'read-dtype', 'peek-dtype', 'readlist-dtype', 'unpack-dtype', 'dtype-of-dtype') and n == 0:
                    continue
                got = obs(th)
                acc.step('read', 1, nontrivial=1, ok=1)
                if got != ('ok', by):
                    acc.violation('read', 'value' if got[0] == 'ok' else 'exc', dict(dtype='bytes', n=n, route=rname, cls=cls, group=f'{rname}|bytes'),
                                  '\n'.join(["import bitstring", f"o = bitstring.{cls}(bin={exp!r})", f"assert {src} == {by!r}"]), by, got)
        for v, exp in ((True, '1'), (False, '0'), (1, '1'), (0, '0')):
            for rname, th, src in [('kw', lambda: c(bool=v), f"bitstring.{cls}(bool={v!r})"), ('token', lambda: c(f'bool={v}'), f"bitstring.{cls}('bool={v}')"),
                                   ('pack', lambda: bs.pack('bool', v), f"bitstring.pack('bool', {v!r})"), ('build', lambda: bs.Dtype('bool').build(v), f"bitstring.Dtype('bool').build({v!r})"),
                                   ('kw+length', lambda: c(bool=v, length=1), f"bitstring.{cls}(bool={v!r}, length=1)"), ('token-sized', lambda: c(f'bool:1={v}'), f"bitstring.{cls}('bool:1={v}')")]:
                got = obs(th, lambda r: r.bin)
                acc.step('create', 1, nontrivial=1, ok=1)
                if got != ('ok', exp):
                    acc.violation('create', 'value' if got[0] == 'ok' else 'exc', dict(dtype='bool', value=repr(v), route=rname, cls=cls, group=f'{rname}|bool'),
                                  '\n'.join(["import bitstring", f"assert ({src}).bin == {exp!r}"]), exp, got)
            # history: the value assigned / built into a mutable owner, the owner changed in place, the value built again
            for hname, mkx, hsrc in [('setattr', lambda: (lambda x: (setattr(x, 'bool', v), x)[1])(bs.BitArray()), f"x = bitstring.BitArray(); x.bool = {v!r}"),
                                     ('setattr-stream', lambda: (lambda x: (setattr(x, 'bool', v), x)[1])(bs.BitStream('0b0')), f"x = bitstring.BitStream('0b0'); x.bool = {v!r}"),
                                     ('kw-mutable', lambda: bs.BitArray(bool=v), f"x = bitstring.BitArray(bool={v!r})"), ('pack', lambda: bs.pack('bool', v), f"x = bitstring.pack('bool', {v!r})")]:
                try:
                    x = mkx()
                    x.invert()
                    x.append('0b11')
                except Exception:  # noqa: BLE001
                    continue
                again = [obs(lambda: bs.Bits(bool=v).bin), obs(lambda: bs.Dtype('bool').build(v).bin), obs(lambda: bs.pack('bool', v).bin), obs(lambda: c(f'bool={v}').bin)]
                acc.step('create', 4, nontrivial=4, ok=4)
                if any(a != ('ok', exp) for a in again):
                    acc.violation('create', 'value', dict(dtype='bool', value=repr(v), route=hname, what='value built again after an in-place change of an earlier result', group=f'history|bool'),
                                  '\n'.join(["import bitstring", hsrc, "x.invert(); x.append('0b11')",
                                             f"assert [bitstring.Bits(bool={v!r}).bin, bitstring.Dtype('bool').build({v!r}).bin, bitstring.pack('bool', {v!r}).bin] == [{exp!r}] * 3"]), exp, again)
            o = c(bin=exp)
            for rname, th in [('prop', lambda: o.bool), ('unpack', lambda: o.unpack('bool')[0]), ('read', lambda: bs.ConstBitStream(o).read('bool')), ('parse', lambda: bs.Dtype('bool').parse(o))]:
                got = obs(th)
                acc.step('read', 1, nontrivial=1, ok=1)
                if not (got[0] == 'ok' and got[1] is bool(v)):
                    acc.violation('read', 'value', dict(dtype='bool', value=repr(v), route=rname, cls=cls), f"import bitstring\nassert bitstring.{cls}(bin={exp!r}).bool is {bool(v)}", bool(v), got)
        for bits in ('', '1', '0110', '101100101'):
            src_obj = bs.Bits(bin=bits)
            n = len(bits)
            for rname, th, src in [('kw', lambda: c(bits=src_obj), f"bitstring.{cls}(bits=bitstring.Bits(bin={bits!r}))"), ('kwstr', lambda: c(bits=('0b' + bits) if bits else ''), f"bitstring.{cls}(bits={('0b' + bits) if bits else ''!r})"),
                                   ('pack', lambda: bs.pack(f'bits:{n}', src_obj), f"bitstring.pack('bits:{n}', bitstring.Bits(bin={bits!r}))"),
                                   ('token', lambda: c(f'bits:{n}=0b{bits}') if bits else c(''), f"bitstring.{cls}('bits:{n}=0b{bits}')"),
                                   ('build', lambda: bs.Dtype('bits', n).build(src_obj), f"bitstring.Dtype('bits', {n}).build(bitstring.Bits(bin={bits!r}))")]:
                got = obs(th, lambda r: r.bin)
                acc.step('create', 1, nontrivial=1, ok=1)
                if got != ('ok', bits):
                    acc.violation('create', 'value' if got[0] == 'ok' else 'exc', dict(dtype='bits', n=n, route=rname, cls=cls, group=f'{rname}|bits'),
                                  '\n'.join(["import bitstring", f"assert ({src}).bin == {bits!r}"]), bits, got)
            o = c(bin=bits)
            for rname, th in [('prop', lambda: o.bits.bin), ('unpack', lambda: o.unpack(f'bits:{n}')[0].bin), ('unpack-lenless', lambda: o.unpack('bits')[0].bin),
                              ('read', lambda: bs.ConstBitStream(o).read(f'bits:{n}').bin), ('readint', lambda: bs.ConstBitStream(o).read(n).bin)]:
                got = obs(th)
                acc.step('read', 1, nontrivial=1, ok=1)
                if got != ('ok', bits):
                    acc.violation('read', 'value', dict(dtype='bits', n=n, route=rname, cls=cls), f"import bitstring\nassert bitstring.{cls}(bin={bits!r}).bits.bin == {bits!r}", bits, got)
    acc.outcome(('misc',))
    acc.state(('misc',))


def patterns(bs, acc, sp, maxw):
    """Interpreting any bit pattern of a valid length and rebuilding from the result reproduces the pattern (NaN payloads excepted)."""
    widths = [n for n in range(0 if sp.kind in ('hex', 'oct', 'bin') else 1, maxw + 1) if sp.legal(n)]
    if sp.kind == 'float':
        widths = [16]
    if sp.name in ('uintbe', 'intbe', 'uintle', 'intle'):
        widths = [8, 16] if maxw >= 10 else [8]
    for n in widths:
        for p in range(1 << n):
            bits = format(p, f'0{n}b') if n else ''
            cls = CLASSES[p % 4]
            o = getattr(bs, cls)(bin=bits)
            exp_v = sp.dec(bits)
            got = obs(lambda: getattr(o, sp.name))
            acc.step('pattern', 1, nontrivial=1, ok=1)
            if not (got[0] == 'ok' and veq(got[1], exp_v)):
                acc.violation('pattern', 'value' if got[0] == 'ok' else 'exc', dict(dtype=sp.name, n=n, bits=bits, what='interpret'),
                              '\n'.join(["import bitstring", f"r = bitstring.{cls}(bin={bits!r}).{sp.name}", f"assert repr(r) == {repr(exp_v)!r}, r"]), fkey(exp_v), got)
                continue
            v = got[1]
            if isinstance(v, float) and v != v:
                continue
            back = obs(lambda: getattr(bs, cls)(**{sp.name: v}, length=n).bin if n or sp.kind not in ('hex', 'oct', 'bin') else getattr(bs, cls)(**{sp.name: v}).bin)
            acc.step('pattern', 1, nontrivial=1, ok=1)
            if back != ('ok', bits):
                acc.violation('pattern', 'value' if back[0] == 'ok' else 'exc', dict(dtype=sp.name, n=n, bits=bits, what='rebuild'),
                              '\n'.join(["import bitstring", f"v = bitstring.{cls}(bin={bits!r}).{sp.name}", f"assert bitstring.{cls}({sp.name}=v, length={n}).bin == {bits!r}"]), bits, back)
        acc.state((sp.name, 'patterns', n))
    acc.outcome((sp.name, 'patterns', tuple(widths)))
