"""Reference model of every BitArray/BitStream mutator as a function on the str of the bits (msb0).

Each function returns an accept set: a list of (obs_pattern, new_bits) alternatives, first = the primary outcome.
  obs_pattern = ('ok', return value) | ('exc', None)   (None: any exception class - the class is judged in C20)
Where the property statement leaves a corner open the list has more than one alternative (DESIGN 2.4); each such
place is marked UNSPECIFIED with the reason. Imports nothing from bitstring.
"""
from __future__ import annotations

from . import search

STRUCT_SIZE = {'b': 1, 'B': 1, 'h': 2, 'H': 2, 'l': 4, 'L': 4, 'i': 4, 'I': 4, 'q': 8, 'Q': 8, 'e': 2, 'f': 4, 'd': 8}


def OK(d, ret=None):
    return [(('ok', ret), d)]


def EXC(d):
    return [(('exc', None), d)]


def norm_pos(L, p):
    return p + L if p < 0 else p


def append(d, b):
    return OK(d + b)


def prepend(d, b):
    return OK(b + d)


def insert(d, b, p):
    L = len(d)
    q = norm_pos(L, p)
    if not 0 <= q <= L:
        if b == '':
            # UNSPECIFIED: inserting nothing at an invalid position - "no-op" and "raises, content unchanged" both
            # satisfy the statement (nothing is altered either way).
            return OK(d) + EXC(d)
        return EXC(d)
    return OK(d[:q] + b + d[q:])


def overwrite(d, b, p):
    L = len(d)
    q = norm_pos(L, p)
    if not 0 <= q <= L:
        if b == '':
            return OK(d) + EXC(d)      # UNSPECIFIED, as for insert
        return EXC(d)
    return OK(d[:q] + b + d[q + len(b):])


def delitem(d, i):
    L = len(d)
    if not -L <= i < L:
        return EXC(d)
    l = list(d)
    del l[i]
    return OK(''.join(l))


def delslice(d, a, b, c):
    if c == 0:
        return EXC(d)
    l = list(d)
    del l[a:b:c]
    return OK(''.join(l))


def setitem_int(d, i, v):
    """v: ('int', n) | ('bits', str)"""
    L = len(d)
    inr = -L <= i < L
    if v[0] == 'int':
        n = v[1]
        if n in (0, 1, -1) and inr:
            return OK(d[:i % L] + ('0' if n == 0 else '1') + d[i % L + 1:])
        return EXC(d)
    if not inr:
        return EXC(d)
    k = i % L
    return OK(d[:k] + v[1] + d[k + 1:])


def setslice(d, a, b, c, v):
    """v: ('int', n) | ('bits', str)"""
    L = len(d)
    if c == 0:
        return EXC(d)
    if v[0] == 'bits':
        l = list(d)
        try:
            l[a:b:c] = list(v[1])
        except ValueError:
            return EXC(d)
        return OK(''.join(l))
    n = v[1]
    if c not in (None, 1, -1):
        if n in (0, 1):
            l = list(d)
            for k in range(*slice(a, b, c).indices(L)):
                l[k] = str(n)
            return OK(''.join(l))
        return EXC(d)
    width = len(d[a:b:c])
    lo, hi = (0, (1 << width) - 1) if n >= 0 else (-(1 << (width - 1)) if width else 0, -1)
    alts = []
    if width > 0 and lo <= n <= hi:
        enc = format(n & ((1 << width) - 1), f'0{width}b')
        l = list(d)
        l[a:b:c] = list(enc)
        alts = OK(''.join(l))
    else:
        alts = EXC(d)
    if c == -1:
        # UNSPECIFIED: integer assignment to a slice with step -1 - the statement gives no encoding order for a
        # reversed slice; list semantics, or a refusal that leaves the content unchanged, are both accepted.
        alts = alts + [a_ for a_ in EXC(d) if a_ not in alts]
    return alts


def replace(d, old, new, start, end, count, ba):
    r = search.replace(d, old, new, search.window(len(d), start, end), ba, count)
    if r[0] == 'exc':
        return EXC(d)
    return OK(r[1][1], r[1][0])


def reverse(d, start, end):
    w = search.window(len(d), start, end)
    if w is None:
        return EXC(d)
    s, e = w
    return OK(d[:s] + d[s:e][::-1] + d[e:])


def rotate(d, n, start, end, left):
    L = len(d)
    if L == 0 or n < 0:
        return EXC(d)
    w = search.window(L, start, end)
    if w is None:
        return EXC(d)
    s, e = w
    if e == s:
        # UNSPECIFIED: rotating an empty [start, end) - nothing can move; no-op or a refusal both leave the content.
        return OK(d) + EXC(d)
    seg = d[s:e]
    k = n % len(seg)
    seg = seg[k:] + seg[:k] if left else (seg[-k:] + seg[:-k] if k else seg)
    return OK(d[:s] + seg + d[e:])


def _positions(L, pos):
    """pos: ('none',) | ('int', p) | ('seq', [p...]).  Returns (valid prefix positions, hit_invalid)."""
    if pos[0] == 'int':
        seq = [pos[1]]
    else:
        seq = list(pos[1])
    out = []
    for p in seq:
        if not -L <= p < L:
            return out, True
        out.append(p % L)
    return out, False


def set_(d, v, pos):
    c = '1' if v else '0'
    if pos[0] == 'none':
        return OK(c * len(d))
    ps, bad = _positions(len(d), pos)
    if bad:
        # the valid positions that preceded the bad one may already have been applied (statement) - or not
        l = list(d)
        alts = EXC(d)
        for p in ps:
            l[p] = c
            alt = (('exc', None), ''.join(l))
            if alt not in alts:
                alts.append(alt)
        return alts
    l = list(d)
    for p in ps:
        l[p] = c
    return OK(''.join(l))


def invert(d, pos):
    flip = {'0': '1', '1': '0'}
    if pos[0] == 'none':
        return OK(''.join(flip[x] for x in d))
    ps, bad = _positions(len(d), pos)
    l = list(d)
    if bad:
        alts = EXC(d)
        for p in ps:
            l[p] = flip[l[p]]
            alt = (('exc', None), ''.join(l))
            if alt not in alts:
                alts.append(alt)
        return alts
    for p in ps:
        l[p] = flip[l[p]]
    return OK(''.join(l))


def byteswap_sizes(fmt):
    """fmt: None | int | str | list -> list of byte sizes or None if invalid."""
    import re
    if fmt is None or fmt == 0:
        return 'all'
    if isinstance(fmt, bool):
        return [int(fmt)]
    if isinstance(fmt, int):
        return None if fmt < 0 else [fmt]
    if isinstance(fmt, str):
        m = re.match(r'^[<>@=]?((?:\d*[bBhHlLiIqQefd])+)$', fmt)
        if not m:
            return None
        out = []
        for cnt, code in re.findall(r'(\d*)([bBhHlLiIqQefd])', m.group(1)):
            out += [STRUCT_SIZE[code]] * (int(cnt) if cnt else 1)
        return out
    sizes = list(fmt)
    if any((not isinstance(x, int)) or x < 0 for x in sizes):
        return None
    return sizes


def byteswap(d, fmt, start, end, repeat):
    L = len(d)
    w = search.window(L, start, end)
    sizes = byteswap_sizes(fmt)
    if w is None or sizes is None:
        return EXC(d)
    s, e = w
    if sizes == 'all':
        sizes = [(e - s) // 8]
    total = 8 * sum(sizes)
    if total == 0:
        return OK(d, 0)
    reps = (e - s) // total
    if not repeat:
        reps = min(reps, 1)
    out = list(d)
    p = s
    for _ in range(reps):
        for sz in sizes:
            chunk = d[p:p + 8 * sz]
            by = [chunk[i:i + 8] for i in range(0, len(chunk), 8)]
            out[p:p + 8 * sz] = list(''.join(reversed(by)))
            p += 8 * sz
    return OK(''.join(out), reps)


def ishift(d, n, left):
    L = len(d)
    if n < 0 or L == 0:
        return EXC(d)
    n = min(n, L)
    return OK((d[n:] + '0' * n) if left else ('0' * n + d[:L - n]), 'self')


def imul(d, n):
    if n < 0:
        return EXC(d)
    return OK(d * n, 'self')


def ibool(d, b, op):
    if len(d) != len(b):
        return EXC(d)
    f = {'&': lambda x, y: x & y, '|': lambda x, y: x | y, '^': lambda x, y: x ^ y}[op]
    return OK(''.join(str(f(int(x), int(y))) for x, y in zip(d, b)), 'self')


def clear(d):
    return OK('')


def selftest():
    # doc/bitarray.rst examples replayed on the model
    h = lambda x: format(int(x, 16), f'0{4 * len(x)}b')
    assert append(h('bad'), h('f00d'))[0][1] == h('badf00d')
    s = h('00112233445566')
    r = byteswap(s, 2, None, None, True)
    assert r[0] == (('ok', 3), h('11003322554466'))
    r2 = byteswap(r[0][1], 'h', None, None, True)
    assert r2[0] == (('ok', 3), s)
    assert byteswap(s, [2, 5], None, None, True)[0] == (('ok', 1), h('11006655443322'))
    assert insert(h('ccee'), h('d'), 8)[0][1] == h('ccdee')
    assert invert('111001', ('int', 0))[0][1] == '011001' and invert('011001', ('seq', [-2, -1]))[0][1] == '011010'
    assert overwrite('0' * 10, '111', 3)[0][1] == '0001110000'
    assert prepend('0', '1111')[0][1] == '11110'
    assert replace('0011001', '1', '1111', None, None, None, False)[0] == (('ok', 3), '0011111111001111')
    assert replace('0011111111001111', '1', '', None, None, 6, False)[0] == (('ok', 6), '0011001111')
    assert reverse('000001101', None, None)[0][1] == '101100000' and reverse('101100000', 0, 4)[0][1] == '110100000'
    assert rotate('01000001', 2, None, None, True)[0][1] == '00000101'
    assert set_('0' * 16, 1, ('int', -1))[0][1] == h('0001')
    assert set_(h('0001'), 1, ('seq', [0, 4, 5, 7, 9]))[0][1] == '1000110101000001'
    assert set_('0' * 16, 1, ('seq', list(range(0, 16, 2))))[0][1] == '10' * 8
    assert setslice('0' * 32, None, None, 8, ('bits', '1111'))[0][1] == h('80808080')
    assert setslice(h('80808080'), -12, None, None, ('bits', '1111'))[0][1] == h('80808f')
    assert ishift('1011', 1, True)[0][1] == '0110' and imul('101', 3)[0][1] == '101101101'
