"""C07 - search, split and count equal the brute-force definition (product explorer).

state  = (class, data bits, options.bytealigned)
event  = operation x pattern x (start, end) x count x bytealigned
oracle = quadratic scan on the str of the bits (bsmc.models.search)
"""
from __future__ import annotations

import itertools

from .. import core, families, routes as RT
from ..models import search as M

PROPERTY = 'C07'
CLASSES = ('Bits', 'BitArray', 'ConstBitStream', 'BitStream')
VACUITY = dict(need_ok=['find', 'rfind', 'findall', 'in', 'startswith', 'endswith', 'count', 'cut', 'split', 'replace'],
               need_rej=['find', 'rfind', 'findall', 'in', 'split', 'replace', 'cut'], min_outcomes=50)


def describe(tier):
    n = 7 if tier == 'quick' else 9
    return dict(
        bounds=dict(all_contents_up_to_bits=n, patterns='all of length 0..3; byte patterns 8/16 bits; 9-bit',
                    window_menu='None, 0..L+1, -1, -L, -L-1 (short data); None,0,1,3,7,8,9,15,16,17,-1,-9,L,L+1 (byte data)',
                    bytealigned=[None, False, True], options_bytealigned=[False, True],
                    count_menu='None,0,1,2,-1 (quick: full menu when bytealigned is defaulted, None/1 when it is explicit)',
                    byte_data='all 1..3-byte strings over {00,ff,b2,01,80} after 0..7 offset bits' if tier == 'thorough'
                    else '1-byte strings at offsets 0..7, 2-byte strings at offsets 0,1,4,7, every 5th 3-byte string at offsets 0 and 3',
                    long_data='17,24,33,64,65 bits periodic/constant' + ('; 8200, 8203, 16400 bits' if tier == 'thorough' else '; one 8203-bit pattern')),
        rule='every (state,event) pair of the product is executed exactly once (menus are deduplicated), so cases are '
             'distinct by construction; non-trivial = the model outcome is not an argument rejection (ValueError for '
             'empty pattern / invalid window / negative count)',
        assumptions=['reference = quadratic scan over the str of the bits; msb0 only (lsb0 is C12)',
                     "'in' under options.bytealigned=True: either the aligned or the unaligned answer is accepted when they differ"])


def shards(tier, seed):
    out = []
    n = 7 if tier == 'quick' else 9
    short = list(families.all_bits(n))
    for i, part in enumerate(families.chunk(short, 48 if tier == 'quick' else 96)):
        out.append(dict(kind='short', data=part, idx=i))
    byte_data = []
    for k in (1, 2, 3, 4):
        for bi, b in enumerate(families.byte_strings(k)):
            if k == 4:
                # 4-byte strings: constant / two-valued ones only (runs of equal bytes, self-overlapping patterns)
                hx = {b[i:i + 8] for i in range(0, 32, 8)}
                offs = ((0, 5) if tier == 'quick' else (0, 1, 5, 7)) if len(hx) <= (1 if tier == 'quick' else 2) else ()
            elif tier == 'thorough' or k == 1:
                offs = range(8)
            elif k == 2:
                offs = (0, 1, 4, 7)
            else:
                offs = (0, 3) if bi % 5 == 0 else ()
            for off in offs:
                byte_data.append(('0110101'[:off]) + b)
    for i, part in enumerate(families.chunk(byte_data, 32 if tier == 'quick' else 64)):
        out.append(dict(kind='byte', data=part, idx=i))
    longs = []
    for L in (17, 24, 33, 64, 65):
        longs += families.edge(L, seed, full=False)
    if tier == 'thorough':
        for L in (8200, 8203, 16400):
            longs += families.edge(L, seed, full=False)[:5]
    else:
        longs += families.edge(8203, seed, full=False)[1:2]     # beyond the 8192-bit reverse-scan chunk, not a whole number of bytes
    for i, part in enumerate(families.chunk(longs, 16)):
        out.append(dict(kind='long', data=part, idx=i))
    return out


SHORT_PATTERNS = list(families.all_bits(3))          # includes '' (must raise)
BYTE_PATTERNS = ['00000000', '11111111', '10110010', '00000001', '10000000', '0000000011111111', '1111111110110010',
                 '1011001000000001', '0000000110000000', '1000000000000000', '000000001', '1', '01', '',
                 # self-overlapping at a byte offset (period 8): successive *non-overlapping* matches matter for split/replace
                 '0000000000000000', '1111111111111111', '1011001010110010']


CNT_FULL = (None, 0, 1, 2, -1)
CNT_RED = (None, 1)


def window_menu(kind, L):
    if kind == 'short':
        m = [None] + list(range(0, L + 2)) + [-1, -L, -L - 1]
    elif kind == 'byte':
        m = [None, 0, 1, 3, 7, 8, 9, 15, 16, 17, -1, -9, L, L + 1]
    else:
        m = [None, 0, 1, 8, 9, -1, -9, L - 8, L - 1, L, L + 1]
    return list(dict.fromkeys(m))


def run_shard(shard, acc):
    bs = core.import_bitstring()
    kind = shard['kind']
    pats = SHORT_PATTERNS if kind == 'short' else BYTE_PATTERNS
    pat_objs = {p: bs.Bits(bin=p) for p in pats}
    ctx = RT.Ctx()
    with core.watchdog(1500):
        for di, d in enumerate(shard['data']):
            L = len(d)
            cls_name = CLASSES[(di + shard['idx']) % 4]
            cls = getattr(bs, cls_name)
            wm = window_menu(kind, L)
            windows = list(itertools.product(wm, wm))
            if kind == 'long' and L > 1000:
                windows = [(a, b) for a, b in windows if a in (None, 0, 1, 9, L) or b in (None, L, L - 1, -9)]
            for opt in (False, True):
                core.set_options(bytealigned=opt)
                s = cls(bin=d)
                acc.state((cls_name, d, opt))
                explore_state(bs, acc, cls_name, s, d, opt, pats, pat_objs, windows, kind)
            # the same searches on objects that are views of a longer source (a stride of the contents, with a reduced window menu)
            if (di + shard['idx']) % 7 == 0 and L <= 64:
                core.set_options()
                for r in ('file_len', 'file_off3_len', 'bytes_off3', 'bytesio', 'stepslice'):
                    try:
                        v = RT.build(bs, r, cls_name, d, ctx)
                    except Exception:  # noqa: BLE001
                        continue
                    if v is None:
                        continue
                    acc.state((cls_name, d, r))
                    explore_state(bs, acc, cls_name, v, d, False, pats[:6], pat_objs, windows[::7] + [(None, None)], kind, src=RT.source(r, cls_name, d))
                # and with the PATTERN being a window onto a longer source (in-memory data)
                for r in ('file_len', 'bytes_off3', 'bytesio'):
                    vp = {}
                    for p_ in pats[:6]:
                        try:
                            o = RT.build(bs, r, 'Bits' if r != 'bytesio' else 'ConstBitStream', p_, ctx)
                        except Exception:  # noqa: BLE001
                            o = None
                        if o is not None and p_:
                            vp[p_] = o
                            _PATSRC[p_] = RT.source(r, 'Bits' if r != 'bytesio' else 'ConstBitStream', p_)
                    if vp:
                        acc.state((cls_name, d, 'pattern-' + r))
                        try:
                            explore_state(bs, acc, cls_name, cls(bin=d), d, False, list(vp), vp, windows[::7] + [(None, None)], kind)
                        finally:
                            _PATSRC.clear()
    core.set_options()
    ctx.close()


_SRC = [None]
_PATSRC = {}      # pattern bits -> source text of the pattern object when it is not the plain Bits(bin=...)


def explore_state(bs, acc, cls_name, s, d, opt, pats, pat_objs, windows, kind, src=None):
    L = len(d)
    _SRC[0] = src
    full = acc.tier == 'thorough'
    # count
    for v in (0, 1, False, True):
        got = s.count(v)
        exp = d.count('1' if v else '0')
        acc.step('count', 1, nontrivial=1, ok=1)
        if got != exp:
            acc.violation('count', 'value', dict(cls=cls_name, data=d, value=v), snip(cls_name, d, opt, f"s.count({v!r})", ('ok', exp)), exp, got)
    acc.outcome(('count', d.count('1')))
    ba_menu = (None, False, True)
    nt = 0
    for p in pats:
        po = pat_objs[p]
        occ = M.occurrences(d, p)
        # 'in'
        exp_in = M.contains(d, p, False, occ)
        alt_in = M.contains(d, p, opt, occ)
        r = obs(lambda: po in s)
        acc.step('in', 1, nontrivial=int(exp_in[0] == 'ok'), ok=int(exp_in[0] == 'ok'), rej=int(exp_in[0] == 'exc'))
        if r != exp_in:
            if r == alt_in:
                acc.widened += 1
            else:
                acc.violation('in', vkind(exp_in, r), dict(cls=cls_name, data=d, pat=p, opt_ba=opt),
                              snip(cls_name, d, opt, f"(bitstring.Bits(bin={p!r}) in s)", exp_in), exp_in, r)
        for (a, b) in windows:
            win = M.window(L, a, b)
            for ba in ba_menu:
                eff = opt if ba is None else ba
                # find / rfind
                e_find = M.find(d, p, win, eff, occ)
                r = obs(lambda: s.find(po, a, b, ba))
                if r != e_find:
                    acc.violation('find', vkind(e_find, r), dict(cls=cls_name, data=d, pat=p, start=a, end=b, ba=ba, opt_ba=opt),
                                  snip(cls_name, d, opt, f"s.find(bitstring.Bits(bin={p!r}), {a}, {b}, {ba})", e_find), e_find, r)
                e_rfind = M.rfind(d, p, win, eff, occ)
                r = obs(lambda: s.rfind(po, a, b, ba))
                if r != e_rfind:
                    acc.violation('rfind', vkind(e_rfind, r), dict(cls=cls_name, data=d, pat=p, start=a, end=b, ba=ba, opt_ba=opt),
                                  snip(cls_name, d, opt, f"s.rfind(bitstring.Bits(bin={p!r}), {a}, {b}, {ba})", e_rfind), e_rfind, r)
                okf = int(e_find[0] == 'ok')
                acc.step('find', 1, nontrivial=okf, ok=okf, rej=1 - okf)
                acc.step('rfind', 1, nontrivial=okf, ok=okf, rej=1 - okf)
                acc.outcome(('find', e_find, e_rfind))
                # findall with count menu
                for cnt in (CNT_FULL if (full or ba is None) else CNT_RED):
                    e_all = M.findall(d, p, win, eff, cnt, occ)
                    r = obs(lambda: list(s.findall(po, a, b, cnt, ba)))
                    ok_ = int(e_all[0] == 'ok')
                    acc.step('findall', 1, nontrivial=ok_, ok=ok_, rej=1 - ok_)
                    if r != e_all:
                        acc.violation('findall', vkind(e_all, r),
                                      dict(cls=cls_name, data=d, pat=p, start=a, end=b, count=cnt, ba=ba, opt_ba=opt,
                                           group='empty' if p == '' else ''),
                                      snip(cls_name, d, opt, f"list(s.findall(bitstring.Bits(bin={p!r}), {a}, {b}, {cnt}, {ba}))", e_all), e_all, r)
                # split: count menu smaller
                for cnt in (CNT_FULL if (full or ba is None) else CNT_RED):
                    e_sp = M.split(d, p, win, eff, cnt)
                    r = obs(lambda: [x.bin for x in s.split(po, a, b, cnt, ba)])
                    ok_ = int(e_sp[0] == 'ok')
                    acc.step('split', 1, nontrivial=ok_, ok=ok_, rej=1 - ok_)
                    if r != e_sp:
                        acc.violation('split', vkind(e_sp, r),
                                      dict(cls=cls_name, data=d, pat=p, start=a, end=b, count=cnt, ba=ba, opt_ba=opt),
                                      snip(cls_name, d, opt, f"[x.bin for x in s.split(bitstring.Bits(bin={p!r}), {a}, {b}, {cnt}, {ba})]", e_sp), e_sp, r)
                    if ok_:
                        acc.outcome(('split', e_sp[1]))
                # replace match selection on a mutable copy (marker of a different length)
                if kind != 'long' or L < 1000:
                    for cnt in ((None, 1, 2) if (full or ba is None) else CNT_RED):
                        for new in (('', '101') if (full or ba is None) else ('101',)):
                            e_rp = M.replace(d, p, new, win, eff, cnt)
                            m = bs.BitArray(bin=d)
                            r = obs(lambda: (m.replace(po, bs.Bits(bin=new), a, b, cnt, ba), m.bin))
                            if r[0] == 'exc' and m.bin != d:
                                r = ('exc+changed', r[1])
                            ok_ = int(e_rp[0] == 'ok')
                            acc.step('replace', 1, nontrivial=ok_, ok=ok_, rej=1 - ok_)
                            if r != e_rp:
                                acc.violation('replace', vkind(e_rp, r),
                                              dict(cls='BitArray', data=d, pat=p, new=new, start=a, end=b, count=cnt, ba=ba, opt_ba=opt),
                                              snip('BitArray', d, opt, f"(s.replace(bitstring.Bits(bin={p!r}), bitstring.Bits(bin={new!r}), {a}, {b}, {cnt}, {ba}), s.bin)", e_rp), e_rp, r)
            # startswith / endswith (no bytealigned parameter)
            e_sw = M.startswith(d, p, win)
            r = obs(lambda: s.startswith(po, a, b))
            ok_ = int(e_sw[0] == 'ok')
            acc.step('startswith', 1, nontrivial=ok_, ok=ok_, rej=1 - ok_)
            if r != e_sw:
                acc.violation('startswith', vkind(e_sw, r), dict(cls=cls_name, data=d, pat=p, start=a, end=b),
                              snip(cls_name, d, opt, f"s.startswith(bitstring.Bits(bin={p!r}), {a}, {b})", e_sw), e_sw, r)
            e_ew = M.endswith(d, p, win)
            r = obs(lambda: s.endswith(po, a, b))
            acc.step('endswith', 1, nontrivial=ok_, ok=ok_, rej=1 - ok_)
            if r != e_ew:
                acc.violation('endswith', vkind(e_ew, r), dict(cls=cls_name, data=d, pat=p, start=a, end=b),
                              snip(cls_name, d, opt, f"s.endswith(bitstring.Bits(bin={p!r}), {a}, {b})", e_ew), e_ew, r)
            acc.outcome(('sw', e_sw, e_ew))
    # cut: bits x window x count
    for (a, b) in windows:
        win = M.window(L, a, b)
        for nbits in (-1, 0, 1, 2, 3, 8, L, L + 1):
            for cnt in (None, 0, 1, 2, -1):
                e_cut = M.cut(d, nbits, win, cnt)
                r = obs(lambda: [x.bin for x in s.cut(nbits, a, b, cnt)])
                ok_ = int(e_cut[0] == 'ok')
                acc.step('cut', 1, nontrivial=ok_, ok=ok_, rej=1 - ok_)
                if r != e_cut:
                    acc.violation('cut', vkind(e_cut, r), dict(cls=cls_name, data=d, bits=nbits, start=a, end=b, count=cnt),
                                  snip(cls_name, d, opt, f"[x.bin for x in s.cut({nbits}, {a}, {b}, {cnt})]", e_cut), e_cut, r)
    if s.bin != d:
        acc.violation('frame', 'frame', dict(cls=cls_name, data=d), f"# searching changed the data of a {cls_name}\nassert False", d, s.bin)
    acc.sample(dict(cls=cls_name, data=d if L < 80 else d[:80] + '...', options_bytealigned=opt,
                    event="s.find(Bits(bin='%s'), %r, %r, None)" % (pats[1], windows[1][0], windows[1][1])))


def obs(thunk):
    try:
        return ('ok', thunk())
    except Exception as e:  # noqa: BLE001 - the class is the observation
        return ('exc', type(e).__name__)



def vkind(exp, got):
    if got[0] == 'exc' and exp[0] == 'ok':
        return 'exc'
    if got[0] == 'ok' and exp[0] == 'exc':
        return 'noexc'
    if got[0] == 'exc+changed':
        return 'frame'
    return 'value' if got[0] == 'ok' else 'excclass'


def snip(cls_name, d, opt, expr, exp):
    pre = ["import bitstring", f"bitstring.options.bytealigned = {opt}", f"s = bitstring.{cls_name}(bin={d!r})"]
    if _PATSRC:
        for p_, psrc in _PATSRC.items():
            expr = expr.replace(f"bitstring.Bits(bin={p_!r})", psrc)
        pre = [RT.SNIPPET_PRELUDE] + pre[1:]
    if _SRC[0] and cls_name != 'BitArray' or (_SRC[0] and 'replace' not in expr):
        pre = [RT.SNIPPET_PRELUDE, f"bitstring.options.bytealigned = {opt}", f"s = {_SRC[0]}"]
    if exp[0] == 'ok':
        e = exp[1]
        body = [f"r = {expr}", f"assert r == {e!r}, r"]
    else:
        body = ["try:", f"    r = {expr}", f"except {exp[1]}:", "    pass", "else:", f"    assert False, ('expected {exp[1]}', r)"]
    return '\n'.join(pre + body)
