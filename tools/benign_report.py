"""benign/REPORT.md: the behaviour-preserving patches and the result of all 20 quick checks on each."""
import glob, json, os
rows = []
for d in sorted(glob.glob('/verif/benign/*/')):
    m = json.load(open(d + 'meta.json'))
    runs = m.get('check_runs', [])
    alarms = [r.split(':')[0] for r in runs if r.split(':')[1] != '0']
    rows.append((os.path.basename(d.rstrip('/')), ', '.join(m.get('files', [])), ' '.join(str(m.get('summary', '')).split())[:230], len(runs), ', '.join(alarms) or 'none'))
with open('/verif/benign/REPORT.md', 'w') as f:
    f.write("# Behaviour-preserving changes: every check must stay silent\n\n")
    f.write("Produced by sub-agents that were given one property text and a scratch worktree (tools/agent_prompt_benign.py), confirmed (836 tests pass) and run\n"
            "against all 20 quick checks by tools/benign_eval.sh; tools/benign_regress.sh re-runs them all against the current HEAD.\n\n")
    f.write("| patch | files | what it changes | checks run | alarms |\n|---|---|---|---|---|\n")
    for r in rows:
        f.write("| " + " | ".join(str(x).replace('|', '\\|') for x in r) + " |\n")
print(len(rows), 'benign patches')
