"""Content families: finite, explicitly listed, enumerated completely (DESIGN 2.7)."""
from __future__ import annotations

EDGE_Q = (15, 16, 17, 31, 32, 33, 63, 64, 65, 127, 128, 129)
EDGE_T = EDGE_Q + (255, 256, 257, 1023, 1024, 1025, 1999, 2000, 2001, 3599, 3600, 3601, 4000, 4001,
                   8191, 8192, 8193, 16385)


def all_bits(n, lo=0):
    """Every bit string of length lo..n, shortest first."""
    for L in range(lo, n + 1):
        if L == 0:
            yield ''
            continue
        for v in range(1 << L):
            yield format(v, f'0{L}b')


def lfsr(L, seed):
    """Deterministic pseudo-pattern of L bits (16-bit Fibonacci LFSR), seeded by VERIF_SEED."""
    s = ((seed * 2654435761) & 0xffff) or 0xace1
    out = []
    for _ in range(L):
        b = ((s >> 0) ^ (s >> 2) ^ (s >> 3) ^ (s >> 5)) & 1
        s = (s >> 1) | (b << 15)
        out.append('1' if s & 1 else '0')
    return ''.join(out)


def edge(L, seed=0, full=True):
    """Boundary patterns of exactly L bits (deduplicated, deterministic order)."""
    pats = ['0' * L, '1' * L, ('01' * L)[:L], ('10' * L)[:L], ('011' * L)[:L], ('0010111' * L)[:L], lfsr(L, seed)]
    if full:
        ones = {0, L - 1}
        for k in range(8, L, 8):
            ones.update((k - 1, k, k + 1))
        ones = sorted(p for p in ones if 0 <= p < L)
        # a single 1 / single 0 at byte boundaries (bounded number for long contents)
        if len(ones) > 14:
            ones = ones[:7] + ones[-7:]
        for p in ones:
            pats.append('0' * p + '1' + '0' * (L - p - 1))
            pats.append('1' * p + '0' + '1' * (L - p - 1))
    return list(dict.fromkeys(pats))


BYTE_ALPHABET = ('00', 'ff', 'b2', '01', '80')


def byte_strings(k):
    """All k-byte strings over the 5-byte alphabet, as bit strings."""
    import itertools
    for combo in itertools.product(BYTE_ALPHABET, repeat=k):
        yield ''.join(format(int(h, 16), '08b') for h in combo)


def chunk(seq, n):
    """Split a list into n nearly equal contiguous shards (deterministic)."""
    seq = list(seq)
    n = max(1, min(n, len(seq)))
    q, r = divmod(len(seq), n)
    out, i = [], 0
    for k in range(n):
        j = i + q + (1 if k < r else 0)
        out.append(seq[i:j])
        i = j
    return out
