"""Reference model of bitstring.Array: (dtype key, list of item bit-chunks, trailing bits). Imports nothing from bitstring.

The data of an Array is always concat(chunks) + trailing. List operations act on the list of chunks with Python list semantics;
new values are encoded with per-dtype reference encoders (int arithmetic / struct / minifloat model).
"""
from __future__ import annotations

import math
import operator
import struct

from . import minifloat as MF


class NoFit(Exception):
    pass


def ib(v, n):
    return format(v & ((1 << n) - 1), f'0{n}b')


def rev(bits):
    return ''.join(reversed([bits[i:i + 8] for i in range(0, len(bits), 8)]))


class DT:
    def __init__(self, key, width, kind, enc, dec, values, signed=False, src=None):
        self.key, self.width, self.kind, self.enc, self.dec, self.values, self.signed = key, width, kind, enc, dec, values, signed
        self.src = src or repr(key)


def _uint(n, le=False):
    def enc(v):
        if not isinstance(v, int):
            if isinstance(v, float):
                v = int(v)              # UNSPECIFIED corner: a float result on an integer dtype is converted with int()
            else:
                raise NoFit
        v = int(v)                      # bool is an int
        if not 0 <= v < (1 << n):
            raise NoFit
        b = ib(v, n)
        return rev(b) if le else b
    return enc, (lambda b: int(rev(b) if le else b, 2))


def _int(n, le=False):
    def enc(v):
        if not isinstance(v, int):
            if isinstance(v, float):
                v = int(v)
            else:
                raise NoFit
        v = int(v)
        if not -(1 << (n - 1)) <= v < (1 << (n - 1)):
            raise NoFit
        b = ib(v, n)
        return rev(b) if le else b

    def dec(b):
        b = rev(b) if le else b
        v = int(b, 2)
        return v - (1 << n) if b[0] == '1' else v
    return enc, dec


def _float(n, le=False):
    code = {16: 'e', 32: 'f', 64: 'd'}[n]

    def enc(v):
        if not isinstance(v, (int, float)) or isinstance(v, bool) and False:
            raise NoFit
        try:
            v = float(v)
        except OverflowError:
            v = math.copysign(float('inf'), v)
        try:
            b = struct.pack(('<' if le else '>') + code, v)
        except (OverflowError, struct.error):
            b = struct.pack(('<' if le else '>') + code, math.copysign(float('inf'), v))
        return ''.join(format(x, '08b') for x in b)
    return enc, (lambda b: struct.unpack(('<' if le else '>') + code, int(b, 2).to_bytes(n // 8, 'big'))[0])


def _mini(name):
    fm = MF.FORMATS[name]

    def enc(v):
        if not isinstance(v, (int, float)):
            raise NoFit
        r = fm.encode(float(v), 'saturate')
        if r == 'ValueError':
            raise NoFit
        return ib(min(r), fm.nbits)
    return enc, (lambda b: fm.decode(int(b, 2)))


def _str(base, per, n):
    def enc(v):
        if not isinstance(v, str):
            raise NoFit
        digits = v.lower().replace('_', '').replace({16: '0x', 8: '0o', 2: '0b'}[base], '')
        if len(digits) * per != n:
            raise NoFit
        try:
            return ib(int(digits, base), n) if n else ''
        except ValueError:
            raise NoFit
    fmt = {16: 'x', 8: 'o', 2: 'b'}[base]
    return enc, (lambda b: format(int(b, 2), f'0{n // per}{fmt}'))


def _bool():
    def enc(v):
        if v in (1, True, '1', 'True'):
            return '1'
        if v in (0, False, '0', 'False'):
            return '0'
        raise NoFit
    return enc, (lambda b: b == '1')


def _bytes(k):
    def enc(v):
        if not isinstance(v, (bytes, bytearray)) or len(v) != k:
            raise NoFit
        return ''.join(format(x, '08b') for x in v)
    return enc, (lambda b: int(b, 2).to_bytes(k, 'big'))


def _bfloat():
    def enc(v):
        if not isinstance(v, (int, float)):
            raise NoFit
        # the definition: a float32 truncated to its top 16 bits (struct keeps the sign and payload of a NaN)
        try:
            b = struct.pack('>f', v)
        except (OverflowError, struct.error):
            b = struct.pack('>f', math.copysign(float('inf'), v))
        return ''.join(format(x, '08b') for x in b[:2])
    return enc, (lambda b: MF.bfloat_decode(int(b, 2)))


def build_dtypes():
    D = {}

    def add(key, width, kind, encdec, values, signed=False):
        D[key] = DT(key, width, kind, encdec[0], encdec[1], values, signed)
    add('uint3', 3, 'int', _uint(3), [0, 7, 5])
    add('int4', 4, 'int', _int(4), [-8, 7, -1], True)
    add('uint8', 8, 'int', _uint(8), [0, 255, 178])
    add('int8', 8, 'int', _int(8), [-128, 127, 5], True)
    add('bool', 1, 'int', _bool(), [True, False, True])
    add('hex4', 4, 'str', _str(16, 4, 4), ['f', '0', 'e'])
    add('bin2', 2, 'str', _str(2, 1, 2), ['01', '11', '00'])
    add('oct3', 3, 'str', _str(8, 3, 3), ['7', '0', '5'])
    add('float16', 16, 'float', _float(16), [1.5, -65504.0, 0.0], True)
    add('bfloat', 16, 'float', _bfloat(), [1.0, -2.5, 3.0e38], True)
    add('p4binary8', 8, 'float', _mini('p4binary'), [1.0, -224.0, 0.125], True)
    add('e2m1mxfp', 4, 'float', _mini('e2m1mxfp'), [0.5, -6.0, 1.5], True)
    add('bytes1', 8, 'bytes', _bytes(1), [b'a', b'\x00', b'\xff'])
    add('bytes2', 16, 'bytes', _bytes(2), [b'ab', b'\x00\xff', b'zz'])
    add('bytes3', 24, 'bytes', _bytes(3), [b'ABC', b'DEF', b'ZZZ'])
    add('<H', 16, 'int', _uint(16, True), [1, 65535, 513])
    add('>b', 8, 'int', _int(8), [-128, 127, -1], True)
    add('=l', 32, 'int', _int(32, True), [-(1 << 31), (1 << 31) - 1, 66000], True)
    add('uintle16', 16, 'int', _uint(16, True), [258, 0, 65535])
    add('intbe24', 24, 'int', _int(24), [-(1 << 23), (1 << 23) - 1, -2], True)
    add('float32', 32, 'float', _float(32), [1.5, -1e38, 0.1], True)
    add('float64', 64, 'float', _float(64), [0.1, -1e300, 2.0], True)
    add('uint65', 65, 'int', _uint(65), [0, (1 << 65) - 1, 12345678901234567890])
    add('e3m2mxfp', 6, 'float', _mini('e3m2mxfp'), [1.0, -28.0, 0.25], True)
    add('uint12', 12, 'int', _uint(12), [0, 4095, 2730])
    add('uint16', 16, 'int', _uint(16), [0, 65535, 258])
    add('int32', 32, 'int', _int(32), [-(1 << 31), 5, -1], True)
    add('uintbe16', 16, 'int', _uint(16), [1, 2, 3])
    add('uint1', 1, 'int', _uint(1), [1, 0, 1])
    return D


DTYPES = build_dtypes()


# ---------------------------------------------------------------------------- the model: state = (dtype key, tuple of chunks, trailing)
def items(st):
    dt = DTYPES[st[0]]
    return [dt.dec(c) for c in st[1]]


def data(st):
    return ''.join(st[1]) + st[2]


def from_data(key, bits):
    w = DTYPES[key].width
    n = len(bits) // w
    return (key, tuple(bits[i * w:(i + 1) * w] for i in range(n)), bits[n * w:])


def selftest():
    d = DTYPES
    assert d['int4'].enc(-6) == '1010' and d['int4'].dec('1010') == -6
    assert d['<H'].enc(1) == '0000000100000000' and d['<H'].dec('0000000100000000') == 1
    assert d['hex4'].enc('e') == '1110' and d['bytes3'].dec(d['bytes3'].enc(b'ABC')) == b'ABC'
    assert d['float16'].dec(d['float16'].enc(89.3)) == 89.3125
    # doc/array.rst: Array('i4', [3, -6, 2, -3, 2, -7]).tobytes() == b':-)'
    bits = ''.join(d['int4'].enc(v) for v in [3, -6, 2, -3, 2, -7])
    assert int(bits, 2).to_bytes(3, 'big') == b':-)'
    st = from_data('int8', ''.join(_int(16)[0](v) for v in (-5, 100, -4)))
    assert items(st) == [-1, -5, 0, 100, -1, -4]
    assert items(from_data('uint3', '1110011')) == [7, 1] and from_data('uint3', '1110011')[2] == '1'
