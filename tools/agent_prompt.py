import json, sys
pid = sys.argv[1]
n = sys.argv[2] if len(sys.argv) > 2 else '2'
for l in open('/verif/properties.jsonl'):
    p = json.loads(l)
    if p['id'] == pid:
        break
print(f"""You are helping test a verification effort for the Python library scott-griffiths/bitstring (pure-Python bit containers Bits/BitArray/ConstBitStream/BitStream, pack/unpack, Array, exotic float codecs, built on the `bitarray` package).

You have your own scratch git worktree of the library at /tmp/wt-{pid} (a checkout of the repository; the package is in /tmp/wt-{pid}/bitstring, tests in /tmp/wt-{pid}/tests). Work ONLY inside /tmp/wt-{pid}. Do NOT read, list or touch /verif or /repo or any other /tmp/wt-* directory. There is no network.

Here is a semantic property the library is supposed to satisfy:

  Title: {p['title']}
  Statement: {p['statement']}
  Quantified over: {p['quantifier']['text']}
  Code involved: {', '.join(p['anchors']['files'])}

Your task: produce {n} DIFFERENT, independent, realistic source changes ("seeded bugs") to the library, each of which BREAKS this property while the library still imports and the ENTIRE existing test suite still passes. Think like a plausible regression: an off-by-one in index/offset arithmetic, a wrong boundary comparison, a fast path that skips a case, a dropped copy so state is shared, a cursor updated at the wrong time, a cached value reused when it should not be, a wrong constant in one branch, two sites that each look fine alone. Prefer changes that need something SPECIFIC to manifest - a particular multi-step sequence of operations, an unusual but legal input (a particular length/alignment/step/boundary value, an operand that is the object itself, a particular class or construction route), or a particular option setting - rather than ones ordinary use would expose immediately. Do not make changes that break the property for nearly every input. Each change should be small (a few lines) and touch only files under bitstring/.

For each change i = 1..{n} deliver, under /tmp/wt-{pid}/seeded/{pid}-<short-name>/ :
  - patch.diff : the change as a unified diff produced by `git diff` in the worktree (relative to the worktree HEAD, applicable with `git apply` from the repository root);
  - demo.py : a small standalone program (only `import bitstring` and the standard library) that exits 0 on the ORIGINAL code and exits non-zero (failed assert) WITH the change applied - it demonstrates the property violation through the public API;
  - meta.json : {{"property": "{pid}", "summary": "...what was changed...", "needs": "...what specific input/sequence/config is needed for it to manifest...", "files": [...]}}.

How to work:
  - Run the test suite with:  cd /tmp/wt-{pid} && /venv/bin/python -m pytest -q -p no:cacheprovider -x -n 8     (about 25 s; 836 tests pass on the original). Run python as `cd /tmp/wt-{pid} && /venv/bin/python demo.py` and first verify that `python -c "import bitstring; print(bitstring.__file__)"` run from /tmp/wt-{pid} prints a path under /tmp/wt-{pid} (the worktree copy must be the one imported; run everything with cwd=/tmp/wt-{pid}, and use PYTHONPATH=/tmp/wt-{pid} if needed).
  - For each change: apply it, run the FULL test suite (it must pass completely), run demo.py (must fail), save `git diff > seeded/.../patch.diff`, then `git checkout -- bitstring` to restore, and run demo.py again (must pass). Make sure the seeded/ directory itself is never part of a patch.
  - If a candidate change makes some existing test fail, discard or refine it; only deliver changes that pass the whole suite.
  - Leave the worktree's bitstring/ directory restored to the original when you finish.

Finish with a short report listing each delivered directory, a one-line description, and confirmation of the three facts (tests pass with change; demo fails with change; demo passes without).""")
