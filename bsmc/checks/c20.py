"""C20 - well-typed misuse fails cleanly and never corrupts an object (generated API surface, depth-bounded sequences).

The alphabet is GENERATED, not hand-listed: every public attribute of the four classes, Array, Dtype and pack (dir() + operator dunders),
with argument tuples drawn from typed pools selected by parameter name; all tuples with <= 1 adversarial argument (the others at their
default), then <= 2 (deviation bounding); then a second call from a core battery on the same object (depth 2 / 3).
oracle: success, or an exception of a documented class; afterwards every involved object is still valid.
"""
from __future__ import annotations

import inspect
import io
import itertools
import os

from .. import core, routes as R
from ..bfs import run_src

PROPERTY = 'C20'
VACUITY = dict(need_ok=['call', 'ctor', 'property', 'operator', 'pack', 'array', 'dtype'], need_rej=['call', 'ctor', 'operator', 'pack', 'array', 'dtype'], min_outcomes=300)

ALLOWED = {'ValueError', 'CreationError', 'InterpretError', 'IndexError', 'ReadError', 'TypeError', 'Error', 'ByteAlignError', 'OSError', 'FileNotFoundError', 'IsADirectoryError',
           'PermissionError', 'EOFError', 'OverflowError', 'UnicodeDecodeError', 'UnicodeEncodeError'}
# OverflowError / Unicode errors are subclasses of ArithmeticError / ValueError: OverflowError is NOT a documented class -> judged below
DOCUMENTED = {'ValueError', 'CreationError', 'InterpretError', 'IndexError', 'ReadError', 'TypeError', 'Error', 'ByteAlignError', 'OSError', 'FileNotFoundError', 'IsADirectoryError',
              'PermissionError', 'UnicodeDecodeError', 'UnicodeEncodeError'}

CLASSES = ('Bits', 'BitArray', 'ConstBitStream', 'BitStream')
DUNDERS = ['__add__', '__radd__', '__mul__', '__rmul__', '__and__', '__rand__', '__or__', '__ror__', '__xor__', '__rxor__', '__invert__', '__lshift__', '__rshift__', '__getitem__',
           '__contains__', '__eq__', '__ne__', '__lt__', '__le__', '__gt__', '__ge__', '__hash__', '__len__', '__iter__', '__bool__', '__copy__', '__str__', '__repr__', '__bytes__',
           '__setitem__', '__delitem__', '__iadd__', '__imul__', '__ilshift__', '__irshift__', '__iand__', '__ior__', '__ixor__']
ARRAY_DUNDERS = ['__add__', '__sub__', '__mul__', '__floordiv__', '__truediv__', '__mod__', '__lshift__', '__rshift__', '__and__', '__or__', '__xor__', '__radd__', '__rsub__', '__rmul__',
                 '__eq__', '__ne__', '__lt__', '__le__', '__gt__', '__ge__', '__neg__', '__abs__', '__getitem__', '__setitem__', '__delitem__', '__len__', '__iter__', '__copy__', '__repr__',
                 '__iadd__', '__isub__', '__imul__', '__ifloordiv__', '__itruediv__', '__imod__', '__ilshift__', '__irshift__', '__iand__', '__ior__', '__ixor__']

# ---- typed pools (source text): first element = the default (benign) value, the rest are adversarial
INTS = ['1', '0', '-1', '-9', '7', '8', '9', 'L', 'L + 1', '-L - 1', '2 ** 31', '2 ** 64', '-2 ** 63', 'True']
SMALL_INTS = ['2', '0', '-1', '1', 'L', 'L + 1', '3', '64']
BITLIKE = ["'0b1'", "''", "'0x0f'", 's', "'0b' + '1' * (L + 1)", "b'\\x00'", "[1, 0]", "bitarray.bitarray('101')", "bitstring.Bits(bin='10')", "'0b2'", "'0xg'", "'ue=3'", "'uint:=3'",
           "bytearray(b'a')", "memoryview(b'ab')", "(x for x in [1, 0, 1])", "io.BytesIO(b'ab')", "True", "bitstring.BitStream('0x1', pos=2)", "array.array('B', [7])", "'hex:8=a'", "range(3)", "IMM", "'*(u8=1), 2*(u8=2)'", "'2*(0b1), (0b0)'"]
FORMATS = ["'u1'", "''", "','", "'0x'", "'0b2'", "'uint'", "'uint:=3'", "'ue:3'", "'3*'", "'2*('", "')'", "'hex:3=a'", "'float:7=1'", "'=5'", "'u8='", "'0x1g'", "'>'", "'<z'", "'bits:-1'", "'0*u8'",
           "'2*(2*(u1))'", "3", "-1", "0", "'bin'", "'hex'", "'bits, ue'", "'ue, bits'", "'bits, bits'", "['u1', 1]", "[-1]", "[1, 'x']", "'pad:2'", "'bool'", "'bytes'", "'float'", "'e4m3mxfp'",
           "'u:n'", "'2*u1, bits'", "'<h'", "'>10Q'", "bitstring.Dtype('u2')", "'int:0'", "'u0'", "'hex:-4'", "'ue'", "'se'", "'uie'", "'sie'", "'ue, ue'", "'se, bits'", "'*(u8), 2*(u8)'", "'x*(u1), 3*(u1)'", "'2*(u1), *(u1)'", "'(u1), 2*(u1)'", "'2*(u1)), (u1'", "'2*3*(u1)'", "'-2*(u1)'", "'2 * ( u1 )'"]
BOOLS = ['None', 'True', 'False', '0', '1']
POSITIONS = ['0', '-1', 'L', '-L - 1', '[0]', '[0, -1]', '[L]', '(x for x in [0])', 'range(L)', 'range(L + 1)', 'range(-1, -L - 1, -1)', 'range(0, L, 2)', '[]', 'None', '(0, L)', '[True]', '[2 ** 64]', 'range(0)']
STREAMS_IO = ['io.StringIO()']
FILES = ['io.BytesIO()']
DTYPES = ["'u8'", "'uint3'", "'float16'", "'hex4'", "'bytes2'", "'ue'", "'pad'", "'nonsense'", "''", "'u0'", "'<H'", "'bool'", "bitstring.Dtype('i4')", "'e2m1mxfp'", "'u-1'", "'bin'", "'u 8'", "'>Z'", "'@'", "'bits3'", "'pad3'",
          "bitstring.Dtype('uint', 0)", "bitstring.Dtype('ue')", "bitstring.Dtype('hex', 0)", "bitstring.Dtype('float16', scale=2 ** 2000)", "bitstring.Dtype('u8', scale=2 ** 2000)",
          "bitstring.Dtype('float16', scale='auto')", "bitstring.Dtype('e4m3mxfp', scale='auto')", "bitstring.Dtype('float32', scale=1e308)", "bitstring.Dtype('bits')"]
NUMBERS = ['1', '0', '-1', '255', '256', '2 ** 70', '0.5', "float('nan')", "float('inf')", "float('-inf')", '-0.0', '1e400', '-2 ** 70', 'True']
ITERABLES = ['[1, 2]', '[]', '[256]', '(1,)', '(x for x in [1])', "'0x1'", "bitstring.Array('u8', [3])", "array.array('B', [1])", "array.array('d', [1.0])", "b'ab'", "a", "[float('inf')]", "[2 ** 70]", "range(3)"]
SEPS = ["' '", "''", "'|'", "'\\n'", "'abc'"]
SEQS = ["['0b1', '0b0']", "[]", "[s, s]", "(x for x in ['0b1'])", "['0b2']", "[b'a', [1]]", "('0x1',)"]

BYNAME = {
    'bs': BITLIKE, 'prefix': BITLIKE, 'suffix': BITLIKE, 'delimiter': BITLIKE, 'old': BITLIKE, 'new': BITLIKE, 'auto': BITLIKE + ['0', '9', '-1', 'io.BytesIO(b"ab")'],
    'pos': INTS, 'start': ['None'] + INTS[:-1], 'end': ['None'] + INTS[:-1], 'bits': SMALL_INTS + ['-2'], 'count': ['None'] + SMALL_INTS + ['-1'], 'n': SMALL_INTS + ['-1', '2 ** 20'],
    'i': SMALL_INTS + ['-9', '100'], 'length': ['None'] + INTS[:-1], 'offset': ['None'] + INTS[:-1], 'key': INTS + ['slice(None)', 'slice(1, 3)', 'slice(None, None, -1)', 'slice(None, None, 0)', 'slice(5, 2)', 'slice(-100, 100, 3)'],
    'bytealigned': BOOLS, 'repeat': BOOLS[1:], 'show_offset': BOOLS[1:], 'fmt': FORMATS, 'width': ['120', '0', '-1', '1', '10 ** 6'], 'sep': SEPS, 'stream': STREAMS_IO, 'f': FILES,
    'sequence': SEQS, 'iterable': ITERABLES, 'dtype': DTYPES, 'x': NUMBERS, 'other': NUMBERS + ITERABLES[:3] + ["bitstring.Array('u8', [1, 2])", 'a', "bitstring.Array('u8', [1, 0, 3])", "bitstring.Array('i4', [0, 1])", "bitstring.Array('float16', [0.0, -0.0, 1.0])",
                                                 "bitstring.Array('float16', [float('inf'), float('nan')])", "bitstring.Array('u8', [])"], 'value': NUMBERS, 'token': DTYPES,
    'scale': ['None', '2', '0', '0.5', "'auto'", '-1', "float('nan')", "float('inf')", '2 ** 2000', '1e308'], 'b': BITLIKE, 'bytepos': SMALL_INTS + ['-1'], 's': ["'0b1'", "''", "'0b2'", "'u8=300'", "'2*('", "'hex:3=a'"],
    'initializer': ['[1, 2]', 'None', '3', '-1', "b'ab'", "bitstring.Bits('0x01')", '[300]', "array.array('B', [1])", '2 ** 11', "[float('inf')]", "bytearray(b'a')"], 'trailing_bits': ['None', "'0b1'", "'0b2'", "'0x' + 'f' * 10", "b'a'"],
}
# per-method overrides where a parameter name means something else
OVERRIDE = {
    ('set', 'value'): ['1', '0', 'True', 'None', "'a'", '[]'], ('set', 'pos'): ['None'] + POSITIONS, ('invert', 'pos'): ['None'] + POSITIONS, ('all', 'pos'): ['None'] + POSITIONS, ('any', 'pos'): ['None'] + POSITIONS,
    ('all', 'value'): ['1', '0', 'None'], ('any', 'value'): ['1', '0', 'None'], ('count', 'value'): NUMBERS[:6] + ["'1'", 'None'], ('byteswap', 'fmt'): ['None', '0', '1', '2', '-1', '[1, 2]', '[-1]', "'h'", "'>2h'", "'x'", "''", '2 ** 40', '[]', "'10q'", '(1, 1)', '[0]', "'0h'"],
    ('__mul__', 'n'): SMALL_INTS + ['-1', '2 ** 16', 'True'], ('__rmul__', 'n'): SMALL_INTS + ['-1'], ('__imul__', 'n'): SMALL_INTS + ['-1', '2 ** 12'],
    ('__lshift__', 'n'): SMALL_INTS + ['-1', '2 ** 64'], ('__rshift__', 'n'): SMALL_INTS + ['-1', '2 ** 64'], ('__ilshift__', 'n'): SMALL_INTS + ['-1', '2 ** 64'], ('__irshift__', 'n'): SMALL_INTS + ['-1', '2 ** 64'],
    ('ror', 'bits'): SMALL_INTS + ['-1', '2 ** 64'], ('rol', 'bits'): SMALL_INTS + ['-1', '2 ** 64'], ('cut', 'bits'): SMALL_INTS + ['-1'], ('__setitem__', 'value'): BITLIKE[:11] + ['0', '1', '-1', '2', 'True', '2 ** 70', '-2 ** 70'],
    ('pp', 'fmt'): ['None', "'bin'", "'hex'", "'oct'", "'bin, hex'", "'hex:0'", "'bin3, hex'", "'u8'", "'ue'", "'bytes'", "'x'", "''", "'bin, hex, oct'", "'float16'", "'bin:-1'", "'bits'", "'bool'", "'pad:3'", "'hex, u'", "'i5, u5'", "'bytes:0'", "'u:0'", "'hex:0, bin:0'", "','", "'2*('"],
    ('read', 'fmt'): FORMATS, ('peek', 'fmt'): FORMATS[:20], ('tofile', 'f'): FILES, ('fromfile', 'f'): ['io.BytesIO(b"abcd")', 'io.BytesIO()'], ('fromfile', 'n'): ['None', '1', '0', '-1', '100'],
    ('insert', 'i'): SMALL_INTS + ['-9', '100'], ('pop', 'i'): ['-1', '0', '1', 'L', '-L - 1', '100'], ('astype', 'dtype'): DTYPES, ('equals', 'other'): ['a', "bitstring.Array('u8', [1])", "array.array('B', [1, 2])", '3', 'None', '[1, 2]'],
}


def describe(tier):
    q = tier == 'quick'
    return dict(bounds=dict(surface='every public attribute of Bits, BitArray, ConstBitStream, BitStream, Array, Dtype + pack (dir() + operator dunders), discovered at run time',
                            pools='typed by parameter name: ints, bitstring-likes, token strings incl. malformed, positions incl. ranges/generators, bools, dtypes, numbers, iterables, streams',
                            deviation='all argument tuples with <= 1 adversarial argument; <= 2 for %s' % ('methods with <= 4 parameters' if q else 'every method'),
                            states='empty, 1 bit, 9 bits, 16 bits at pos 5, file-backed (length-limited), a truncated exp-Golomb code x msb0 / lsb0',
                            sequences=('second call from a 12-call core battery after every first call of the 9-bit state whose later arguments are at their defaults' if q else
                                       'second call from the core battery (12-21 calls) after EVERY first call of every non-empty state; third call from the battery'),
                            excluded='assigning to read-only properties of immutable classes; private names; arguments that would allocate > 2**27 bits'),
                rule='each generated (object state, call) executed once on a fresh object; non-trivial = the call is accepted (succeeds); rejections are judged for their exception class; '
                     'after every call the post-conditions are evaluated on all involved objects',
                assumptions=['documented exception classes: ValueError (CreationError, InterpretError), IndexError (ReadError), TypeError, bitstring.Error (ByteAlignError), OSError; EOFError for Array.fromfile',
                             'a hang is detected by a 10 s watchdog per call'])


def states(bs, ctx):
    """name -> (factory, source)"""
    def filebacked(cls):
        p, o, n = R.embed('101100100000000111', 0)
        f = ctx.file_for(p)
        return getattr(bs, cls)(filename=f, length=n)
    return {
        'empty': (lambda cls: getattr(bs, cls)(), "bitstring.{cls}()"),
        'one': (lambda cls: getattr(bs, cls)(bin='1'), "bitstring.{cls}(bin='1')"),
        'nine': (lambda cls: getattr(bs, cls)(bin='101100101'), "bitstring.{cls}(bin='101100101')"),
        'sixteen': (lambda cls: (getattr(bs, cls)(bin='1011001000000001', pos=5) if 'Stream' in cls else getattr(bs, cls)(bin='1011001000000001')),
                    "bitstring.{cls}(bin='1011001000000001'{pos})"),
        'file': (filebacked, "bitstring.{cls}(filename=F, length=18)"),
        'golomb': (lambda cls: getattr(bs, cls)(bin='0010'), "bitstring.{cls}(bin='0010')"),       # an exp-Golomb code cut short by one bit
    }


def shards(tier, seed):
    out = []
    for lsb0 in (False, True):
        for cls in CLASSES:
            for st in ('empty', 'one', 'nine', 'sixteen', 'file', 'golomb'):
                out.append(dict(kind='methods', cls=cls, state=st, lsb0=lsb0))
        for cls in CLASSES:
            out.append(dict(kind='ctor', lsb0=lsb0, cls=cls))
        for r in range(5):
            out.append(dict(kind='array', lsb0=lsb0, root=r))
        out.append(dict(kind='array', lsb0=lsb0, root='ctor'))
        for part in range(6):
            out.append(dict(kind='dtype-pack', lsb0=lsb0, part=part))
    return out


def params_of(fn):
    try:
        sig = inspect.signature(fn)
    except (TypeError, ValueError):
        return None
    out = []
    for name, p in sig.parameters.items():
        if name in ('self', 'cls'):
            continue
        if p.kind in (p.VAR_POSITIONAL, p.VAR_KEYWORD):
            continue
        out.append((name, p.kind, p.default is not inspect.Parameter.empty))
    return out


def pool(method, pname):
    return OVERRIDE.get((method, pname)) or BYNAME.get(pname) or ['None', '0', "'a'"]


def calls_for(method, params, two):
    """Argument tuples (as source) with <= 1 (and optionally <= 2) adversarial arguments."""
    pools = [pool(method, n) for n, _, _ in params]
    defaults = [p[0] for p in pools]
    out = [tuple(defaults)]
    for i, p in enumerate(pools):
        for v in p[1:]:
            t = list(defaults)
            t[i] = v
            out.append(tuple(t))
    if two and len(params) >= 2:
        for i, j in itertools.combinations(range(len(params)), 2):
            for v in pools[i][1:]:
                for w in pools[j][1:]:
                    t = list(defaults)
                    t[i], t[j] = v, w
                    out.append(tuple(t))
    return list(dict.fromkeys(out))


def render_call(target, method, params, args):
    parts = []
    for (name, kind, has_default), a in zip(params, args):
        if kind == inspect.Parameter.KEYWORD_ONLY:
            parts.append(f"{name}={a}")
        else:
            parts.append(a)
    return f"{target}.{method}({', '.join(parts)})"


def namespace(bs, extra=None):
    import bitarray
    import array
    ns = dict(bitstring=bs, bitarray=bitarray, array=array, io=io, IMM=bs.Bits(bin='0110'))
    ns.update(extra or {})
    return ns


def witness(bs, ns):
    """Objects the caller did not hand over for mutation: the immutable argument IMM and the values of string literals."""
    try:
        if ns['IMM'].bin != '0110' or len(ns['IMM']) != 4:
            return f"immutable argument changed: IMM is now {ns['IMM'].bin[:24]!r}"
        if bs.Bits('0x3c').bin != '00111100' or bs.Bits('0b1').bin != '1' or bs.BitArray('0b01').bin != '01':
            return "string literal value changed: a parsed-string cache entry was modified"
    except core.Hang:
        raise
    except Exception as e:  # noqa: BLE001
        return f"witness unusable: {type(e).__name__}"
    return None


class TooManyHangs(Exception):
    pass


_HANGS = [0]
MAX_HANGS = 6


def note_hang():
    """A tree on which calls hang would otherwise cost 10 s per generated call: after MAX_HANGS hangs the shard stops (the hangs seen are
    reported, the cap is recorded in the evidence and the run is not called exhaustive)."""
    _HANGS[0] += 1
    if _HANGS[0] >= MAX_HANGS:
        raise TooManyHangs()


def timed(ns, src):
    """run_src under the per-call watchdog; a call that does not return within 10 s is the observation ('exc', 'HANG')."""
    try:
        with core.watchdog(10):
            return run_src(ns, src)
    except core.Hang:
        note_hang()
        return ('exc', 'HANG')


def invariants(bs, obj, snap, cls):
    """Post-conditions on one object; returns a problem string or None."""
    try:
        b = obj.bin
        if len(obj) != len(b):
            return f"len {len(obj)} != len(bin) {len(b)}"
        if cls in ('ConstBitStream', 'BitStream'):
            if not 0 <= obj.pos <= len(obj):
                return f"pos {obj.pos} outside [0, {len(obj)}]"
        if cls in ('Bits', 'ConstBitStream') and snap is not None and (b, hash(obj)) != snap:
            return f"immutable object changed from {snap[0][:24]} to {b[:24]}"
    except core.Hang:
        raise
    except Exception as e:  # noqa: BLE001
        return f"object unusable afterwards: {type(e).__name__}: {e}"
    return None


def judge(acc, op, src, pre, got, problem, group=''):
    ok = got[0] == 'ok'
    acc.step(op, 1, nontrivial=int(ok), ok=int(ok), rej=int(not ok))
    acc.outcome((op, got[0], got[1] if got[0] == 'exc' else None, src[:40]))
    bad_exc = got[0] == 'exc' and got[1] not in DOCUMENTED and not (got[1] == 'EOFError' and 'fromfile' in src)
    if bad_exc or problem:
        kind = 'excclass' if bad_exc else 'invariant'
        what = got[1] if bad_exc else problem.split(':')[0][:40]
        if got == ('exc', 'HANG'):
            pre = ["import signal", "signal.alarm(20)      # the call below does not return: the alarm ends the replay with a non-zero exit"] + list(pre)
        lines = pre + ["try:", f"    {src}", "except (ValueError, IndexError, TypeError, bitstring.Error, OSError" + (", EOFError" if 'fromfile' in src else "") + "):", "    pass"]
        lines += POST_SRC
        acc.violation(op, kind, dict(call=src, setup=pre[-1][:100], lsb0=core.get_options()[0], exc=got[1] if got[0] == 'exc' else None, problem=problem, group=f"{group}|{what}"),
                      '\n'.join(lines), 'success or a documented exception; objects valid afterwards', (got, problem))


POST_SRC = ["assert IMM.bin == '0110', IMM.bin", "assert bitstring.Bits('0x3c').bin == '00111100' and bitstring.Bits('0b1').bin == '1' and bitstring.BitArray('0b01').bin == '01'",
            "for o in [v for v in list(globals().values()) if isinstance(v, bitstring.Bits)]:",
            "    assert len(o) == len(o.bin)", "    assert not hasattr(o, 'pos') or 0 <= o.pos <= len(o), (o.pos, len(o))",
            "assert 'SNAP' not in globals() or (s.bin, len(s)) == SNAP, (s.bin, SNAP)"]


def run_shard(shard, acc):
    bs = core.import_bitstring()
    ctx = R.Ctx()
    try:
        core.set_options(lsb0=shard['lsb0'])
        k = shard['kind']
        if k == 'methods':
            methods(bs, acc, ctx, shard)
        elif k == 'ctor':
            ctors(bs, acc, ctx, shard)
        elif k == 'array':
            arrays(bs, acc, shard)
        else:
            dtype_pack(bs, acc, shard)
    except TooManyHangs:
        acc.cap(f"shard stopped after {MAX_HANGS} calls that did not return within 10 s")
    finally:
        core.set_options()
        ctx.close()


CORE_BATTERY = ["len(s)", "s.bin", "s[0:2]", "s + '0b1'", "s.find('0b1')", "list(s.cut(4))", "s.tobytes()", "str(s)", "s == s", "s.count(1)", "s.unpack('bin')", "~s"]
CORE_STREAM = ["s.read(1)", "s.pos", "s.peek('u1')", "s.bytealign()"]
CORE_MUT = ["s.append('0b1')", "s.invert()", "s.insert('0b1', 0)", "del s[0]", "s.reverse()"]


def methods(bs, acc, ctx, shard):
    cls, stname, lsb0 = shard['cls'], shard['state'], shard['lsb0']
    q = acc.tier == 'quick'
    st = states(bs, ctx)[stname]
    klass = getattr(bs, cls)
    if stname == 'file':
        p, o, n = R.embed('101100100000000111', 0)
        setup = ["import tempfile, os", "F = os.path.join(tempfile.mkdtemp(), 'f.bin')", f"open(F, 'wb').write({p!r})"]
    else:
        setup = []
    mksrc = st[1].format(cls=cls, pos=', pos=5' if 'Stream' in cls else '')
    pre = ["import bitstring, bitarray, array, io", f"bitstring.options.lsb0 = {lsb0}"] + setup + [f"s = {mksrc}", "L = len(s)", "IMM = bitstring.Bits(bin='0110')"] + (["SNAP = (s.bin, len(s))"] if cls in ('Bits', 'ConstBitStream') else [])
    names = sorted(n for n in dir(klass) if not n.startswith('_')) + [d for d in DUNDERS if hasattr(klass, d)]
    if cls in ('Bits', 'ConstBitStream'):
        names = [n for n in names if n not in ('__setitem__', '__delitem__') or hasattr(klass, n)]
    acc.state((cls, stname, lsb0))

    def fresh():
        s = st[0](cls)
        return s, (s.bin, hash(s)) if cls in ('Bits', 'ConstBitStream') else None

    for name in names:
        attr = inspect.getattr_static(klass, name)
        is_prop = isinstance(attr, property) or not callable(getattr(klass, name, None))
        if is_prop:
            s, snap = fresh()
            ns = namespace(bs, dict(s=s, L=len(s)))
            got = timed(ns, f"s.{name}")
            got = (got[0], got[1] if got[0] == 'exc' else None)
            judge(acc, 'property', f"s.{name}", pre, got, invariants(bs, s, snap, cls), group=name)
            if cls in ('BitArray', 'BitStream') and isinstance(attr, property) and attr.fset is not None:
                for v in prop_values(bs, name):
                    s, snap = fresh()
                    ns = namespace(bs, dict(s=s, L=len(s)))
                    got = timed(ns, f"s.{name} = {v}")
                    got = (got[0], got[1] if got[0] == 'exc' else None)
                    judge(acc, 'property', f"s.{name} = {v}", pre, got, invariants(bs, s, snap, cls) or witness(bs, ns), group=name + '=')
                    if stname == 'nine' and got[0] == 'ok':
                        # what was assigned must not be reachable through later changes to s
                        for b2 in CORE_MUT:
                            g2 = timed(ns, b2)
                            judge(acc, 'call', b2, pre + [f"s.{name} = {v}"], (g2[0], g2[1] if g2[0] == 'exc' else None), invariants(bs, ns['s'], None, cls) or witness(bs, ns), group='seq|' + name + '=')
            continue
        fn = getattr(klass, name)
        params = params_of(fn)
        if params is None:
            params = []
        if name in ('__getitem__', '__delitem__'):
            params = [('key', inspect.Parameter.POSITIONAL_ONLY, False)]
        if name == '__setitem__':
            params = [('key', inspect.Parameter.POSITIONAL_ONLY, False), ('value', inspect.Parameter.POSITIONAL_ONLY, False)]
        if name in ('__eq__', '__ne__', '__lt__', '__le__', '__gt__', '__ge__', '__contains__', '__add__', '__radd__', '__and__', '__rand__', '__or__', '__ror__', '__xor__', '__rxor__',
                    '__iadd__', '__iand__', '__ior__', '__ixor__'):
            params = [('bs', inspect.Parameter.POSITIONAL_ONLY, False)]
        if name == 'fromstring':
            params = [('s', inspect.Parameter.POSITIONAL_ONLY, False)]
        two = (len(params) <= 4 or name == 'pp') if q else True
        for args in calls_for(name, params, two):
            src = render_call('s' if name != 'fromstring' else f'bitstring.{cls}', name, params, args)
            if _too_big(src):
                continue
            s, snap = fresh()
            ns = namespace(bs, dict(s=s, L=len(s)))
            try:
                with core.watchdog(10):
                    got = run_src(ns, src)
                    if got[0] == 'ok' and hasattr(got[1], '__next__'):
                        got = run_src(dict(ns, G=got[1]), "list(__import__('itertools').islice(G, 40))")
            except core.Hang:
                judge(acc, 'call', src, pre, ('exc', 'HANG'), None, group=name)
                note_hang()
                continue
            op = 'operator' if name.startswith('__') else 'call'
            obs_ = (got[0], got[1] if got[0] == 'exc' else None)
            problem = invariants(bs, s, snap, cls)
            # any bitstring returned must be valid too
            if got[0] == 'ok' and isinstance(got[1], bs.Bits) and problem is None:
                problem = invariants(bs, got[1], None, type(got[1]).__name__)
            if core.get_options() != (lsb0, False, 'saturate'):
                problem = problem or f"module options changed to {core.get_options()}"
                core.set_options(lsb0=lsb0)
            # a mutable bitstring handed back to the caller is the caller's: changing it in place must not reach the receiver, the arguments,
            # the immutable witness or the values of string literals
            extra = ''
            if got[0] == 'ok' and isinstance(got[1], bs.BitArray) and got[1] is not ns['s'] and problem is None:
                before = (ns['s'].bin, getattr(ns['s'], 'pos', None))
                try:
                    got[1].invert()
                    got[1].append('0b1')
                    got[1].reverse()
                except Exception as e:  # noqa: BLE001
                    problem = f"returned bitstring unusable: {type(e).__name__}"
                if problem is None and (ns['s'].bin, getattr(ns['s'], 'pos', None)) != before:
                    problem = "changing the returned bitstring in place changed the receiver"
                extra = "\n    (_r.invert(), _r.append('0b1'), _r.reverse()) if isinstance(_r, bitstring.BitArray) and _r is not s else None"
            problem = problem or witness(bs, ns)
            judge(acc, op, (f"_r = {src}" + extra) if extra else src, pre, obs_, problem, group=name)
            # depth 2 (and 3): follow with the core battery on the same object
            if (stname == 'nine' if q else stname != 'empty') and problem is None and (not q or all(a == d for a, d in zip(args[1:], [pool(name, p[0])[0] for p in params][1:]))):
                battery = CORE_BATTERY + (CORE_STREAM if 'Stream' in cls else []) + (CORE_MUT if cls in ('BitArray', 'BitStream') else [])
                for b2 in battery:
                    try:
                        with core.watchdog(10):
                            g2 = run_src(ns, b2)
                            if g2[0] == 'ok' and hasattr(g2[1], '__next__'):
                                list(itertools.islice(g2[1], 40))
                    except core.Hang:
                        g2 = ('exc', 'HANG')
                    judge(acc, 'call', b2, pre + ["try:", f"    {src}", "except Exception:", "    pass"], (g2[0], g2[1] if g2[0] == 'exc' else None), invariants(bs, ns['s'], None if cls in ('BitArray', 'BitStream') else snap, cls) or witness(bs, ns), group='seq|' + name)
                    if g2 == ('exc', 'HANG'):
                        note_hang()
                    if not q:
                        g3 = run_src(ns, battery[(len(b2) + len(src)) % len(battery)])
                        judge(acc, 'call', battery[(len(b2) + len(src)) % len(battery)], pre + ["try:", f"    {src}", f"    {b2}", "except Exception:", "    pass"], (g3[0], g3[1] if g3[0] == 'exc' else None),
                              invariants(bs, ns['s'], None if cls in ('BitArray', 'BitStream') else snap, cls), group='seq3|' + name)
    acc.sample(dict(cls=cls, state=stname, lsb0=lsb0, methods=len(names), example="s.find('0b1', L + 1, None, None); s.ror(2, 2, 2); s[2 ** 64]; s.unpack('2*(')"))


def prop_values(bs, name):
    """Values of the documented type for assigning to property `name`."""
    ints = ['1', '0', '-1', '255', '256', '2 ** 70', '-2 ** 70', 'True']
    if name in ('pos', 'bitpos', 'bytepos'):
        return ['0', '1', '-1', 'L', 'L + 1', '2 ** 64', 'True']
    try:
        rt = bs.dtype_register[name].return_type
    except Exception:  # noqa: BLE001
        return ints
    if rt is int:
        return ints
    if rt is float:
        return ['1.5', '0', "float('nan')", "float('inf')", "float('-inf')", '-0.0', '1e400', '2 ** 70', '1e-400']
    if rt is str:
        return ["'1'", "'ff'", "''", "'zz'", "'0b1'", "'0x'", "' 1_0 '", "'-1'"]
    if rt is bytes:
        return ["b'a'", "b''", "bytearray(b'ab')"]
    if rt is bool:
        return ['True', 'False', '1', '0', '2']
    if rt is bs.Bits:
        return ["'0b1'", "bitstring.Bits('0b1')", "''", "'0b2'", "[1, 0]", "s", "IMM", "'0x3c'"]
    return ['None']


def _too_big(src):
    return ('2 ** 64' in src or '2 ** 31' in src or '2 ** 40' in src or '10 ** 6' in src) and any(m in src for m in ('__mul__', '__rmul__', '__imul__', 'join('))


def ctors(bs, acc, ctx, shard):
    lsb0 = shard['lsb0']
    pre = ["import bitstring, bitarray, array, io", f"bitstring.options.lsb0 = {lsb0}", "L = 8", "s = bitstring.Bits('0b1')"]
    kws = ['bin', 'hex', 'oct', 'bytes', 'int', 'uint', 'float', 'bool', 'se', 'ue', 'sie', 'uie', 'floatle', 'floatne', 'bfloat', 'bfloatle', 'intbe', 'intle', 'intne', 'uintbe', 'uintle', 'uintne',
           'filename', 'bits', 'bitarray', 'auto', 'pad', 'p4binary', 'e4m3mxfp', 'e8m0mxfp', 'mxint', 'u', 'i', 'f', 'h', 'nonsense', 'u8', 'float16', 'hex_']
    STRS = ["'1'", "''", "'ff'", "'0b101'", "'zz'", "'0x'", "'-0'", "'1e400'", "' 1 _ 0 '"]
    INTV = ["1", "0", "-1", "2 ** 70", "-2 ** 70", "True", "255", "256"]
    FLTV = ["1.5", "float('nan')", "float('inf')", "3.0", "1", "1e400", "-0.0", "2 ** 70"]
    BYTV = ["b'ab'", "b''", "bytearray(b'a')", "memoryview(b'ab')"]
    BITV = ["bitstring.Bits('0b1')", "'0b101'", "[1, 0]", "b'a'", "''", "'0b2'", "bitarray.bitarray('101')"]
    typed = dict(bin=STRS, hex=STRS, oct=STRS, h=STRS, hex_=STRS, bytes=BYTV, filename=["'/nonexistent/file'", "'/'", "''"], bits=BITV, bitarray=["bitarray.bitarray('101')", "bitarray.bitarray()"],
                 auto=BITV + ['0', '9', '-1', "io.BytesIO(b'ab')"], bool=["True", "False", "1", "0", "2", "'True'", "'x'"], pad=["None"], nonsense=["1"])
    for k_ in ('int', 'uint', 'se', 'ue', 'sie', 'uie', 'intbe', 'intle', 'intne', 'uintbe', 'uintle', 'uintne', 'u', 'i', 'u8'):
        typed[k_] = INTV
    for k_ in ('float', 'floatle', 'floatne', 'bfloat', 'bfloatle', 'p4binary', 'e4m3mxfp', 'e8m0mxfp', 'mxint', 'f', 'float16'):
        typed[k_] = FLTV
    values = BITV
    lengths = ['', ', length=8', ', length=0', ', length=-1', ', length=16', ', length=7', ', offset=1', ', offset=-1', ', length=4, offset=2', ', length=None', ', length=2 ** 40']
    acc.state(('ctor', lsb0, shard['cls']))
    for cls in (shard['cls'],):
        for kw in kws:
            for v in typed[kw]:
                for ln in (lengths if kw in ('bin', 'uint', 'int', 'bytes', 'float', 'bitarray', 'filename', 'hex', 'bool', 'uintle', 'auto') else lengths[:4]):
                    if '2 ** 40' in ln and kw not in ('bytes', 'bitarray'):
                        continue
                    src = f"bitstring.{cls}({kw}={v}{ln})" if kw != 'auto' else f"bitstring.{cls}({v}{ln})"
                    ns = namespace(bs, dict(L=8, s=bs.Bits('0b1')))
                    got = timed(ns, src)
                    problem = None
                    if got[0] == 'ok':
                        problem = invariants(bs, got[1], None, cls)
                        if problem is None and type(got[1]).__name__ != cls:
                            problem = f"constructed a {type(got[1]).__name__}"
                    judge(acc, 'ctor', f"r = {src}", pre, (got[0], got[1] if got[0] == 'exc' else None), problem, group='ctor-' + kw)
        for v in values + FORMATS + ["io.BytesIO(b'ab')", "bytearray(b'ab')", "memoryview(b'ab')", "array.array('B', [1])", "range(3)", "(x for x in [1, 0])", "{1, 0}", "{'a': 1}", "object()", "lambda: 1"]:
            for extra in ('', ', pos=1', ', pos=-1', ', pos=100') if 'Stream' in cls else ('',):
                src = f"bitstring.{cls}({v}{extra})"
                ns = namespace(bs, dict(L=8, s=bs.Bits('0b1')))
                got = timed(ns, src)
                problem = invariants(bs, got[1], None, cls) if got[0] == 'ok' else None
                judge(acc, 'ctor', f"r = {src}", pre, (got[0], got[1] if got[0] == 'exc' else None), problem, group='ctor-auto')
    acc.sample(dict(event="Cls(kw=value, length=.., offset=..) for 39 keywords x 25 values x 12 length/offset forms; Cls(auto) for every pool value"))


def arrays(bs, acc, shard):
    lsb0 = shard['lsb0']
    q = acc.tier == 'quick'
    klass = bs.Array
    names = sorted(n for n in dir(klass) if not n.startswith('_')) + [d for d in ARRAY_DUNDERS if hasattr(klass, d)]
    roots = [("bitstring.Array('u8', [1, 2, 3])", 'u8'), ("bitstring.Array('i4', [])", 'empty'), ("bitstring.Array('float16', [1.5, -2.0], trailing_bits='0b101')", 'f16t'),
             ("bitstring.Array('hex4', ['a', 'b'])", 'hex'), ("bitstring.Array('bytes2', [b'ab'])", 'bytes')]
    elem = {'hex': ["'f'", "'g'", "''", "'ff'", "'0xf'"], 'bytes': ["b'zz'", "b''", "b'abc'", "bytearray(b'ab')"]}
    for rsrc, tag in ([roots[shard['root']]] if shard['root'] != 'ctor' else []):
        if tag in elem:
            OVERRIDE[('extend', 'iterable')] = ['[%s]' % elem[tag][0], '[]', '[%s, %s]' % (elem[tag][0], elem[tag][1]), '(x for x in [%s])' % elem[tag][2], 'a', "bitstring.Array('u8', [3])"]
        else:
            OVERRIDE.pop(('extend', 'iterable'), None)
        for key_ in (('append', 'x'), ('insert', 'x'), ('__setitem__', 'value'), ('count', 'value')):
            if tag in elem:
                OVERRIDE[key_] = elem[tag]
            elif key_ == ('__setitem__', 'value'):
                OVERRIDE[key_] = NUMBERS + ['[1]', '[1, 2]', '(x for x in [1])']
            else:
                OVERRIDE.pop(key_, None)
        OVERRIDE[('__setitem__', 'key')] = INTS[:10] + ['slice(None)', 'slice(1, 3)', 'slice(None, None, -1)', 'slice(None, None, 0)', 'slice(5, 2)', 'slice(None, None, 2)']
        pre = ["import bitstring, bitarray, array, io", f"bitstring.options.lsb0 = {lsb0}", f"a = {rsrc}", "L = len(a)", "s = bitstring.Bits('0b1')"]
        acc.state(('array', tag, lsb0))
        for name in names:
            attr = inspect.getattr_static(klass, name)
            if isinstance(attr, property):
                ns = namespace(bs)
                run_src(ns, f"a = {rsrc}")
                got = run_src(ns, f"a.{name}")
                judge(acc, 'array', f"a.{name}", pre, (got[0], got[1] if got[0] == 'exc' else None), arr_inv(bs, ns['a']), group='A.' + name)
                if attr.fset is not None:
                    for v in DTYPES + ["bitstring.BitArray('0x01')", "'0b1'"]:
                        ns = namespace(bs)
                        run_src(ns, f"a = {rsrc}")
                        got = run_src(ns, f"a.{name} = {v}")
                        judge(acc, 'array', f"a.{name} = {v}", pre, (got[0], got[1] if got[0] == 'exc' else None), arr_inv(bs, ns['a']) if got[0] == 'ok' or name != 'data' else None, group='A.' + name + '=')
                continue
            fn = getattr(klass, name)
            params = params_of(fn) or []
            if name in ('__getitem__', '__delitem__'):
                params = [('key', inspect.Parameter.POSITIONAL_ONLY, False)]
            if name == '__setitem__':
                params = [('key', inspect.Parameter.POSITIONAL_ONLY, False), ('value', inspect.Parameter.POSITIONAL_ONLY, False)]
            for args in calls_for(name, params, len(params) <= 2):
                src = render_call('a', name, params, args)
                if ('2 ** 70' in src or '2 ** 64' in src) and ('shift' in name or 'mul' in name):
                    continue
                ns = namespace(bs, dict(s=bs.Bits('0b1')))
                run_src(ns, f"a = {rsrc}")
                ns['L'] = len(ns['a'])
                try:
                    with core.watchdog(10):
                        got = run_src(ns, src)
                        if got[0] == 'ok' and hasattr(got[1], '__next__'):
                            got = run_src(dict(ns, G=got[1]), "list(__import__('itertools').islice(G, 40))")
                except core.Hang:
                    judge(acc, 'array', src, pre, ('exc', 'HANG'), None, group='A.' + name)
                    note_hang()
                    continue
                problem = arr_inv(bs, ns['a'])
                if got[0] == 'ok' and isinstance(got[1], bs.Array) and problem is None:
                    problem = arr_inv(bs, got[1])
                if core.get_options() != (lsb0, False, 'saturate'):
                    problem = problem or 'module options changed'
                    core.set_options(lsb0=lsb0)
                judge(acc, 'array', src, pre, (got[0], got[1] if got[0] == 'exc' else None), problem, group='A.' + name)
    # Array constructor
    for dt in (DTYPES if shard['root'] == 'ctor' else []):
        for init in BYNAME['initializer']:
            for tr in BYNAME['trailing_bits'][:3]:
                src = f"bitstring.Array({dt}, {init}, {tr})"
                ns = namespace(bs, dict(s=bs.Bits('0b1')))
                got = timed(ns, src)
                judge(acc, 'array', f"r = {src}", ["import bitstring, bitarray, array, io", f"bitstring.options.lsb0 = {lsb0}", "s = bitstring.Bits('0b1')"], (got[0], got[1] if got[0] == 'exc' else None),
                      arr_inv(bs, got[1]) if got[0] == 'ok' else None, group='A.ctor')
    acc.sample(dict(event="every public attribute and operator of Array on 5 roots with <= 1 / <= 2 adversarial arguments; Array(dtype, initializer, trailing_bits) for all pool values"))


def arr_inv(bs, a):
    try:
        n = len(a)
        try:
            items = a.tolist()
        except ValueError:
            items = None      # interpreting an item may legitimately fail (e.g. a scale factor beyond the float range): a documented exception, not corruption
        if items is not None and len(items) != n:
            return "len(tolist()) != len(a)"
        w = a.dtype.bitlength
        if len(a.data) != n * w + len(a.trailing_bits):
            return "data length inconsistent with items + trailing bits"
        if len(a.data) != len(a.data.bin):
            return "data invalid"
    except core.Hang:
        raise
    except Exception as e:  # noqa: BLE001
        return f"Array unusable afterwards: {type(e).__name__}: {e}"
    return None


def dtype_pack(bs, acc, shard):
    lsb0 = shard['lsb0']
    pre = ["import bitstring, bitarray, array, io", f"bitstring.options.lsb0 = {lsb0}", "s = bitstring.Bits('0b1')", "L = 8"]
    acc.state(('dtype-pack', lsb0))
    toks = DTYPES + [f for f in FORMATS[:25] if f.startswith("'")]
    part = shard['part']
    for tok in (toks[part::3] if part < 3 else []):
        for ln in ['', ', 8', ', 0', ', -1', ', None', ', 2 ** 20', ', 3', ', True']:
            for sc in ['', ', scale=2', ', scale=0', ", scale='auto'", ", scale=float('nan')", ', scale=None', ', scale=2 ** 2000', ', scale=1e308', ', scale=-2 ** 2000', ", scale=float('inf')"]:
                if sc not in ('', ', scale=None') and any(k in tok for k in ('bits', 'bin', 'hex', 'bytes', 'pad', 'bool', 'oct')):
                    continue      # a scale on a non-numeric dtype is not a documented use
                if ln == '' and sc == '' or True:
                    src = f"bitstring.Dtype({tok}{ln}{sc})"
                    ns = namespace(bs, dict(s=bs.Bits('0b1'), L=8))
                    got = timed(ns, src)
                    judge(acc, 'dtype', f"d = {src}", pre, (got[0], got[1] if got[0] == 'exc' else None), None, group='Dtype()')
                    if got[0] == 'ok':
                        d = got[1]
                        for m in ("d.build(1)", "d.build('a')", "d.build(-1)", "d.build(None)", "d.build(1.5)", "d.parse('0b1')", "d.parse('0x01')", "d.parse(3)", "d.parse('')", "str(d)", "repr(d)", "d == d",
                                  "d.name, d.length, d.bitlength, d.scale, d.variable_length, d.return_type, d.is_signed, d.bits_per_item", "hash(d)", "d.set_fn, d.get_fn, d.read_fn"):
                            ns2 = namespace(bs, dict(d=d, s=bs.Bits('0b1'), L=8))
                            g = timed(ns2, m)
                            judge(acc, 'dtype', m, pre + [f"d = {src}"], (g[0], g[1] if g[0] == 'exc' else None), None, group='Dtype.' + m.split('(')[0])
    vals = ['', ', 1', ', 1, 2', ", 'a'", ', -1', ', 1.5', ", b'a'", ', s', ', 255', ", '0b1', 1", ', IMM', ", '0x3c'", ', IMM, 1']
    kws = ['', ', n=8', ', n=-1', ", n='a'", ', a=1', ', uint=3', ', n=0', ', x=IMM', ', n=4']
    fl = [x for x in FORMATS if x[0] in "'b" or x.startswith("['u8'")] + ["['u8', 'u:n']", "'u:n, hex:n'", "'u8=a, u8=b'", "'bits'", "'bits:n'", "['u1', 'bin']", "[]", "['']", "'bits:4'", "'bits:8'", "'bits=x'", "'bits, u1'"]
    for f in (fl[part - 3::3] if part >= 3 else []):
        for v in vals:
            for kw in (kws if v in ('', ', 1') else kws[:2]):
                src = f"bitstring.pack({f}{v}{kw})"
                ns = namespace(bs, dict(s=bs.Bits('0b1'), L=8))
                got = timed(ns, src)
                problem = None
                if got[0] == 'ok':
                    problem = invariants(bs, got[1], None, 'BitStream') if isinstance(got[1], bs.Bits) else 'pack returned a non-bitstring'
                if got[0] == 'ok' and isinstance(got[1], bs.Bits) and problem is None:
                    # the caller owns the packed stream: changing it in place must not reach the arguments, IMM or the values of string literals
                    try:
                        got[1].invert()
                        got[1].append('0b1')
                        got[1].clear()
                    except Exception as e:  # noqa: BLE001
                        problem = f"packed stream unusable: {type(e).__name__}"
                    problem = problem or witness(bs, ns)
                if ns['s'].bin != '1':
                    problem = 'pack changed its argument'
                if core.get_options() != (lsb0, False, 'saturate'):
                    problem = problem or 'module options changed'
                    core.set_options(lsb0=lsb0)
                judge(acc, 'pack', f"r = {src}\n    r.invert(); r.append('0b1'); r.clear()", pre, (got[0], got[1] if got[0] == 'exc' else None), problem, group='pack')
    acc.sample(dict(event="Dtype(token, length, scale) for all pool values then build/parse/str/repr/==; pack(fmt, *values, **kwargs) for every format in the pool"))
