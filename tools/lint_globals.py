"""Poor man's pyflakes (none is installed): every LOAD_GLOBAL in every code object of the bsmc modules must name a module global or a builtin.
Violation paths are rarely executed on a clean tree, so a typo there would otherwise only show when it matters."""
import builtins, dis, importlib, pkgutil, sys, types
sys.path.insert(0, '/verif')
import bsmc, bsmc.checks, bsmc.models
bad = 0
mods = [m.name for p in (bsmc, bsmc.checks, bsmc.models) for m in pkgutil.iter_modules(p.__path__, p.__name__ + '.')]
for name in mods:
    if name.endswith('.cli') or name in ('bsmc.checks', 'bsmc.models'):
        continue
    mod = importlib.import_module(name)

    def walk(code):
        global bad
        for ins in dis.get_instructions(code):
            if ins.opname in ('LOAD_GLOBAL', 'LOAD_NAME') and ins.argval not in mod.__dict__ and not hasattr(builtins, ins.argval):
                print(f"{name}:{code.co_name}:{ins.positions.lineno if ins.positions else '?'} undefined global {ins.argval!r}")
                bad += 1
        for c in code.co_consts:
            if isinstance(c, types.CodeType):
                walk(c)
    with open(mod.__file__) as f:
        walk(compile(f.read(), mod.__file__, 'exec'))
print('undefined globals:', bad)
sys.exit(1 if bad else 0)
