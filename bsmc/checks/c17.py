"""C17 - byte and file serialisation is lossless and zero-padded (product explorer).

write side: state = (class, content)                 event = tobytes | bytes() | .bytes | tofile(BytesIO) | tofile(real file) [x chunk size via hook]
read side : state = (byte source, offset, length)    event = Cls(bytes=..) | BytesIO | file handle | filename= | Array.fromfile
oracle = int(bin + padding, 2).to_bytes for writing; the selected window of the source bits for reading.
"""
from __future__ import annotations

import hashlib
import io
import itertools
import os

from .. import core, families, routes as R
from ..util import CLASSES, obs

PROPERTY = 'C17'
VACUITY = dict(need_ok=['tobytes', 'bytes()', 'bytesprop', 'tofile', 'tofile-chunk', 'readback', 'array-tobytes', 'array-fromfile'],
               need_rej=['bytesprop', 'readback', 'array-fromfile'], min_outcomes=300)
CHUNK_ENV = 'BITSTRING_VERIF_TOFILE_CHUNK_BITS'


def describe(tier):
    q = tier == 'quick'
    return dict(bounds=dict(contents='all contents of length <= %d; boundary patterns up to %d bits' % (13 if q else 19, 129 if q else 16385), classes=list(CLASSES) + ['Array'],
                            read_windows='every (offset, length) with 0 <= offset <= offset+length <= 8*len(source) and the first out-of-range ones, over all sources of 0..%d bytes '
                                         'from the 5-byte alphabet, through bytes=, BytesIO, file handle and filename=' % (3 if q else 4),
                            large_source='one 200 KiB source: 19 offsets around the 4096- and 65536-byte boundaries and the end x 7 lengths through filename=, handle, bytes=, BytesIO',
                            tofile_chunks='hook: chunk sizes 8, 64, 72 bits x contents of chunk-1, chunk, chunk+1, 2*chunk+3, 3*chunk bits' +
                                          ('' if q else '; hook off: one 100 MiB + 9 bit write into a hashing sink'),
                            array_dtypes=['uint3', 'uint8', 'int12', 'float16', 'bytes2' if False else 'uintle16']),
                rule='each (content, event) and each (source, window, route) executed once; non-trivial = the model yields bytes / a window (not the refusal of .bytes for '
                     'non-whole-byte lengths or an out-of-range window)',
                assumptions=['int.to_bytes is the definition of the zero-padded byte form', 'tofile chunk size is overridden through the BITSTRING_VERIF hook (guarded, off by default)'])


def tob(bits):
    return R.to_bytes(bits)


def shards(tier, seed):
    q = tier == 'quick'
    out = []
    conts = list(families.all_bits(13 if q else 19))
    for part in families.chunk(conts, 32 if q else 64):
        out.append(dict(kind='write', conts=part))
    edges = []
    for L in (families.EDGE_Q if q else families.EDGE_T):
        edges += families.edge(L, seed, full=False)[:5]
    for part in families.chunk(edges, 8):
        out.append(dict(kind='write', conts=part))
    for k in range(0, (3 if q else 4) + 1):
        srcs = list(families.byte_strings(k)) if k else ['']
        if k == 4:
            srcs = srcs[::2]
        for part in families.chunk(srcs, 25 if k >= 2 else 1):
            out.append(dict(kind='read', sources=part))
    for chunk in (8, 64, 72):
        out.append(dict(kind='chunk', chunk=chunk, seed=seed))
    out.append(dict(kind='array'))
    out.append(dict(kind='large', seed=seed))
    if not q:
        out.append(dict(kind='huge'))
    return out


def run_shard(shard, acc):
    bs = core.import_bitstring()
    ctx = R.Ctx()
    try:
        with core.watchdog(3000):
            k = shard['kind']
            if k == 'write':
                for d in shard['conts']:
                    write_events(bs, acc, ctx, d)
            elif k == 'read':
                for s in shard['sources']:
                    read_windows(bs, acc, ctx, s)
            elif k == 'chunk':
                chunked(bs, acc, ctx, shard['chunk'], shard['seed'])
            elif k == 'array':
                arrays(bs, acc, ctx)
            elif k == 'large':
                large_windows(bs, acc, ctx, shard['seed'])
            else:
                huge(bs, acc)
    finally:
        os.environ.pop(CHUNK_ENV, None)
        ctx.close()


def write_events(bs, acc, ctx, d):
    exp = tob(d)
    L = len(d)
    for ci, cls in enumerate(CLASSES if L <= 9 else (CLASSES[L % 4],)):
        s = getattr(bs, cls)(bin=d)
        if cls in ('ConstBitStream', 'BitStream') and L:
            s.pos = L // 2
        acc.state((cls, d if L < 40 else (L, hash(d))))
        pre = ["import bitstring, io", f"s = bitstring.{cls}(bin={d!r})" if L < 3000 else f"s = bitstring.{cls}(bin='{d[:16]}' * {L // 16} + {d[L - L % 16:]!r})"]
        for op, th, src in (('tobytes', lambda: s.tobytes(), "s.tobytes()"), ('bytes()', lambda: bytes(s), "bytes(s)")):
            got = obs(th)
            acc.step(op, 1, nontrivial=1, ok=1)
            if got != ('ok', exp):
                acc.violation(op, 'value', dict(cls=cls, bits=d if L < 70 else f'{L} bits'), '\n'.join(pre + [f"assert {src} == {exp!r}" if L < 3000 else f"assert len({src}) == {len(exp)}"]), exp.hex()[:60], str(got)[:80])
        got = obs(lambda: s.bytes)
        e2 = ('ok', exp) if L % 8 == 0 else ('exc', 'ValueError')
        acc.step('bytesprop', 1, nontrivial=int(L % 8 == 0), ok=int(L % 8 == 0), rej=int(L % 8 != 0))
        if not (got == e2 or (e2[0] == 'exc' and got[0] == 'exc' and got[1] in ('ValueError', 'InterpretError'))):
            acc.violation('bytesprop', 'value' if got[0] == 'ok' and e2[0] == 'ok' else 'noexc', dict(cls=cls, bits=d if L < 70 else f'{L} bits'),
                          '\n'.join(pre + (["try:", "    r = s.bytes", "except ValueError:", "    pass", "else:", "    assert False, r"] if L % 8 else [f"assert s.bytes == {exp!r}"])), str(e2)[:80], str(got)[:80])
        # tofile into a BytesIO and a real file
        f = io.BytesIO()
        got = obs(lambda: (s.tofile(f), f.getvalue())[1])
        acc.step('tofile', 1, nontrivial=1, ok=1)
        if got != ('ok', exp):
            acc.violation('tofile', 'value', dict(cls=cls, bits=d if L < 70 else f'{L} bits', sink='BytesIO'),
                          '\n'.join(pre + ["f = io.BytesIO()", "s.tofile(f)", f"assert f.getvalue() == s.tobytes() and len(f.getvalue()) == {len(exp)}"]), exp.hex()[:60], str(got)[:80])
        if L % 5 == 0 or L > 20:
            path = os.path.join(ctx.dir, 'out.bin')

            def tf():
                with open(path, 'wb') as fh:
                    s.tofile(fh)
                with open(path, 'rb') as fh:
                    return fh.read()
            got = obs(tf)
            acc.step('tofile', 1, nontrivial=1, ok=1)
            if got != ('ok', exp):
                acc.violation('tofile', 'value', dict(cls=cls, bits=d if L < 70 else f'{L} bits', sink='file'),
                              '\n'.join(pre + ["import tempfile, os", "p = os.path.join(tempfile.mkdtemp(), 'o')", "s.tofile(open(p, 'wb')) if False else None",
                                               "fh = open(p, 'wb'); s.tofile(fh); fh.close()", "assert open(p, 'rb').read() == s.tobytes()"]), exp.hex()[:60], str(got)[:80])
            # and read the file back whole: Bits(filename=..) has 8*len(exp) bits = content + zero padding
            if exp:
                back = obs(lambda: bs.Bits(filename=path).bin)
                acc.step('readback', 1, nontrivial=1, ok=1)
                if back != ('ok', d + '0' * ((-L) % 8)):
                    acc.violation('readback', 'value', dict(cls=cls, bits=d if L < 70 else f'{L} bits', route='file-whole'), '\n'.join(pre + ["# tofile then Bits(filename=) differs", "assert False"]), 'padded content', str(back)[:80])
        if s.bin != d:
            acc.violation('tobytes', 'frame', dict(cls=cls), "# serialising changed the object\nassert False", None, None)
    # the same serialisers on objects that are views of a longer source (file-backed with a length limit, offset windows, slices)
    if L <= 40 and (L % 3 == 0 or L < 10):
        for r in ('file_len', 'file_handle_len', 'file_off3_len', 'bytes_off3', 'bytesio', 'slice', 'stepslice', 'from_mutated'):
            cls = CLASSES[(L + len(r)) % 4]
            try:
                s = R.build(bs, r, cls, d, ctx)
            except Exception:  # noqa: BLE001 - construction is C08/C15 business
                continue
            if s is None:
                continue
            f = io.BytesIO()
            for op, th, src in (('tobytes', lambda: s.tobytes(), "s.tobytes()"), ('bytes()', lambda: bytes(s), "bytes(s)"), ('tofile', lambda: (s.tofile(f), f.getvalue())[1], "TOFILE(s)")):
                got = obs(th)
                acc.step(op, 1, nontrivial=1, ok=1)
                if got != ('ok', exp):
                    acc.violation(op, 'value', dict(cls=cls, bits=d, route=r, group=f'route-{r}'),
                                  '\n'.join([R.SNIPPET_PRELUDE, "import io", "def TOFILE(s):", "    f = io.BytesIO(); s.tofile(f); return f.getvalue()", f"s = {R.source(r, cls, d)}", f"assert {src} == {exp!r}, {src}"]), exp.hex(), str(got)[:80])
    acc.outcome(('write', exp[:8], L % 8))
    if L == 11:
        acc.sample(dict(bits=d, events="tobytes(), bytes(s), s.bytes, tofile(BytesIO), tofile(file)"))


def read_windows(bs, acc, ctx, srcbits):
    payload = tob(srcbits)
    N = len(srcbits)
    wins = [(k, n) for k in range(0, N + 1) for n in range(0, N - k + 1)]
    bad = [(N + 1, 0), (0, N + 1), (N, 1), (1, N), (N // 2, N - N // 2 + 1), (-1, 1), (0, -1)] if N else [(1, 0), (0, 1), (-1, 0)]
    path = ctx.file_for(payload) if payload else None
    acc.state(('src', srcbits))
    for (k, n), valid in [(w, True) for w in wins] + [(w, False) for w in bad]:
        exp = ('ok', srcbits[k:k + n]) if valid else ('exc', 'ValueError')
        cls = CLASSES[(k + n) % 4]
        c = getattr(bs, cls)
        rts = [('bytes', lambda: c(bytes=payload, offset=k, length=n), f"bitstring.{cls}(bytes={payload!r}, offset={k}, length={n})"),
               ('bytearray', lambda: c(bytes=bytearray(payload), length=n, offset=k), f"bitstring.{cls}(bytes=bytearray({payload!r}), length={n}, offset={k})"),
               ('bytesio', lambda: c(io.BytesIO(payload), offset=k, length=n), f"bitstring.{cls}(io.BytesIO({payload!r}), offset={k}, length={n})")]
        if payload and len(payload) % 2 == 0:
            # a memoryview whose items are wider than a byte: offsets and lengths still count bits of the underlying bytes
            rts.append(('memoryview-H', lambda: c(bytes=memoryview(payload).cast('H'), offset=k, length=n), f"bitstring.{cls}(bytes=memoryview({payload!r}).cast('H'), offset={k}, length={n})"))
            if valid and k + n == N:
                rts.append(('memoryview-H-off', lambda: c(bytes=memoryview(payload).cast('H'), offset=k), f"bitstring.{cls}(bytes=memoryview({payload!r}).cast('H'), offset={k})"))
        if payload and len(payload) % 4 == 0:
            rts.append(('memoryview-array-I', lambda: c(bytes=memoryview(__import__('array').array('I', payload)), offset=k, length=n),
                        f"bitstring.{cls}(bytes=memoryview(__import__('array').array('I', {payload!r})), offset={k}, length={n})"))
        if payload:
            rts.append(('memoryview-strided', lambda: c(bytes=memoryview(R.interleave(payload))[::2], offset=k, length=n), f"bitstring.{cls}(bytes=memoryview({R.interleave(payload)!r})[::2], offset={k}, length={n})"))
        if payload:
            # BytesIO objects whose cursor is not at the start: filled by write(), already used once, partly read
            def bio_written():
                f = io.BytesIO()
                f.write(payload)
                return c(f, offset=k, length=n)

            def bio_reused():
                f = io.BytesIO(payload)
                bs.Bits(f)
                return c(f, offset=k, length=n)
            rts.append(('bytesio-written', bio_written, f"(lambda f: (f.write({payload!r}), bitstring.{cls}(f, offset={k}, length={n}))[1])(io.BytesIO())"))
            rts.append(('bytesio-reused', bio_reused, f"(lambda f: (bitstring.Bits(f), bitstring.{cls}(f, offset={k}, length={n}))[1])(io.BytesIO({payload!r}))"))
            if valid and k == 0 and n == N:
                def bio_written_whole():
                    f = io.BytesIO()
                    f.write(payload)
                    return c(f)

                def bio_reused_whole():
                    f = io.BytesIO(payload)
                    c(f)
                    f.read(1)
                    return c(f)
                rts.append(('bytesio-written-whole', bio_written_whole, f"(lambda f: (f.write({payload!r}), bitstring.{cls}(f))[1])(io.BytesIO())"))
                rts.append(('bytesio-reused-whole', bio_reused_whole, f"(lambda f: (bitstring.{cls}(f), f.read(1), bitstring.{cls}(f))[2])(io.BytesIO({payload!r}))"))
        if k == 0:
            rts.append(('bytes-len', lambda: c(bytes=payload, length=n), f"bitstring.{cls}(bytes={payload!r}, length={n})"))
        if valid and k + n == N:
            rts.append(('bytes-off', lambda: c(bytes=payload, offset=k), f"bitstring.{cls}(bytes={payload!r}, offset={k})"))
            rts.append(('bytesio-off', lambda: c(io.BytesIO(payload), offset=k), f"bitstring.{cls}(io.BytesIO({payload!r}), offset={k})"))
        if path:
            rts.append(('filename', lambda: c(filename=path, offset=k, length=n), f"bitstring.{cls}(filename=F, offset={k}, length={n})"))

            def fh_route():
                with open(path, 'rb') as fh:
                    return c(fh, offset=k, length=n)
            rts.append(('handle', fh_route, f"bitstring.{cls}(open(F, 'rb'), offset={k}, length={n})"))
            if k == 0:
                rts.append(('filename-len', lambda: c(filename=path, length=n), f"bitstring.{cls}(filename=F, length={n})"))
        for rname, th, src in rts:
            got = obs(th, lambda r: r.bin)
            good = got == exp or (exp[0] == 'exc' and got[0] == 'exc' and got[1] in ('ValueError', 'CreationError'))
            acc.step('readback', 1, nontrivial=int(valid), ok=int(valid), rej=int(not valid))
            if not good:
                lines = ["import bitstring, io, tempfile, os", "F = os.path.join(tempfile.mkdtemp(), 'f')", f"open(F, 'wb').write({payload!r})"]
                lines += [f"assert ({src}).bin == {exp[1]!r}"] if valid else ["try:", f"    r = {src}", "except ValueError:", "    pass", "else:", "    assert False, r.bin"]
                acc.violation('readback', 'value' if valid and got[0] == 'ok' else ('noexc' if not valid else 'exc'),
                              dict(source=payload.hex(), offset=k, length=n, route=rname, cls=cls, group=f"{rname}|{'ok' if valid else 'bad'}"), '\n'.join(lines), exp, got)
        acc.outcome(('win', exp))
    acc.sample(dict(source=payload.hex(), windows=len(wins), event="Cls(bytes=b, offset=k, length=n) / BytesIO / filename / handle for every window"))


def large_windows(bs, acc, ctx, seed):
    """Windows into a source of several memory pages: offsets below, at and above the 4096-byte and 65536-byte boundaries
    (a file-backed object maps the file; the mapping granularity must not show)."""
    nbytes = 3 * 65536 + 4096 + 5
    payload = bytes(((i * 131 + (i >> 8) * 17 + seed) ^ (i >> 3)) & 0xFF for i in range(nbytes))
    N = 8 * nbytes
    path = ctx.file_for(payload)
    gen = "bytes(((i * 131 + (i >> 8) * 17 + %d) ^ (i >> 3)) & 0xFF for i in range(%d))" % (seed, nbytes)

    def bits(k, n):
        by = payload[k // 8:(k + n + 7) // 8 + 1]
        s = ''.join(format(b, '08b') for b in by)
        return s[k % 8:k % 8 + n]
    offs = sorted({0, 7, 8, 4095 * 8, 4096 * 8 - 1, 4096 * 8, 4096 * 8 + 1, 4096 * 8 + 13, 8192 * 8, 8192 * 8 + 5, 65535 * 8 + 7, 65536 * 8, 65536 * 8 + 3, 2 * 65536 * 8 + 4096 * 8 + 9,
                   3 * 65536 * 8, N - 64, N - 9, N - 1, N})
    acc.state(('large', nbytes))
    for k in offs:
        for n in (0, 1, 8, 13, 64, 4096 * 8 + 3, None):
            if n is None:
                n_eff = N - k
            else:
                n_eff = n
            valid = k + n_eff <= N
            if n is None and n_eff > 70000:
                continue                      # a whole-rest window is compared for the later offsets only (cost)
            exp = ('ok', bits(k, n_eff)) if valid else ('exc', 'ValueError')
            for cls in ('Bits', 'ConstBitStream', 'BitArray'):
                c = getattr(bs, cls)
                ln = '' if n is None else f', length={n}'
                kw = {} if n is None else dict(length=n)
                rts = [('filename', lambda: c(filename=path, offset=k, **kw), f"bitstring.{cls}(filename=F, offset={k}{ln})")]

                def fh_route():
                    with open(path, 'rb') as fh:
                        return c(fh, offset=k, **kw)
                rts.append(('handle', fh_route, f"bitstring.{cls}(open(F, 'rb'), offset={k}{ln})"))
                if cls == 'Bits':
                    rts.append(('bytes', lambda: c(bytes=payload, offset=k, **kw), f"bitstring.{cls}(bytes=P, offset={k}{ln})"))
                    rts.append(('bytesio', lambda: c(io.BytesIO(payload), offset=k, **kw), f"bitstring.{cls}(io.BytesIO(P), offset={k}{ln})"))
                for rname, th, src in rts:
                    got = obs(th, lambda r: (r.bin, r.tobytes().hex(), len(r)))
                    e2 = ('ok', (exp[1], tob(exp[1]).hex(), n_eff)) if valid else exp
                    good = got == e2 or (not valid and got[0] == 'exc' and got[1] in ('ValueError', 'CreationError'))
                    acc.step('readback', 1, nontrivial=int(valid), ok=int(valid), rej=int(not valid))
                    if not good:
                        lines = ["import bitstring, io, tempfile, os", f"P = {gen}", "F = os.path.join(tempfile.mkdtemp(), 'f')", "open(F, 'wb').write(P)",
                                 "def bits(k, n):", "    s = ''.join(format(b, '08b') for b in P[k // 8:(k + n + 7) // 8 + 1])", "    return s[k % 8:k % 8 + n]"]
                        lines += [f"r = {src}", f"assert r.bin == bits({k}, {n_eff}) and len(r) == {n_eff}, (len(r), r.bin[:40])"] if valid else \
                                 ["try:", f"    r = {src}", "except ValueError:", "    pass", "else:", "    assert False, len(r)"]
                        acc.violation('readback', 'value' if valid and got[0] == 'ok' else ('noexc' if not valid else 'exc'),
                                      dict(source=f'{nbytes} bytes', offset=k, length=n, route=rname, cls=cls, group=f"large|{rname}|{'ok' if valid else 'bad'}"), '\n'.join(lines),
                                      str(e2)[:80], str(got)[:80])
        acc.outcome(('largewin', k))
    acc.sample(dict(source=f'{nbytes} bytes', offsets=offs, event="Cls(filename=F, offset=k, length=n), file handle, bytes=, BytesIO across page boundaries"))


def chunked(bs, acc, ctx, chunk, seed):
    """tofile crosses its internal chunk boundary (size overridden through the guarded hook)."""
    os.environ[CHUNK_ENV] = str(chunk)
    try:
        for lsb0 in (False, True):
            core.set_options(lsb0=lsb0)
            _chunked(bs, acc, ctx, chunk, seed, lsb0)
    finally:
        core.set_options()
        os.environ.pop(CHUNK_ENV, None)


def _chunked(bs, acc, ctx, chunk, seed, lsb0):
    if True:
        for L in sorted({chunk - 1, chunk, chunk + 1, 2 * chunk - 1, 2 * chunk, 2 * chunk + 3, 3 * chunk, 3 * chunk + 7, 5 * chunk + 1, 1, 0}):
            for d in families.edge(L, seed, full=False)[:7] if L else ['']:
                exp = tob(d)
                for cls in CLASSES:
                    s = getattr(bs, cls)(bin=d)
                    f = io.BytesIO()
                    got = obs(lambda: (s.tofile(f), f.getvalue())[1])
                    acc.state((cls, L, chunk, d[:16], lsb0))
                    acc.step('tofile-chunk', 1, nontrivial=1, ok=1)
                    if got != ('ok', exp):
                        acc.violation('tofile-chunk', 'value', dict(cls=cls, bits=d if L < 70 else f'{L} bits', chunk=chunk, lsb0=lsb0, group=f'chunk{chunk}-{lsb0}'),
                                      '\n'.join(["import os", f"os.environ['BITSTRING_VERIF'] = '1'; os.environ[{CHUNK_ENV!r}] = '{chunk}'", "import bitstring, io", f"bitstring.options.lsb0 = {lsb0}",
                                                 f"s = bitstring.{cls}(bin={d!r})", "f = io.BytesIO(); s.tofile(f)", "assert f.getvalue() == s.tobytes(), (f.getvalue(), s.tobytes())"]), exp.hex(), str(got)[:100])
                # Array.tofile goes the same way
                a = bs.Array('uint8', bs.Bits(bin=d))
                f = io.BytesIO()
                got = obs(lambda: (a.tofile(f), f.getvalue())[1])
                acc.step('tofile-chunk', 1, nontrivial=1, ok=1)
                if got != ('ok', exp):
                    acc.violation('tofile-chunk', 'value', dict(cls='Array', bits=f'{L} bits', chunk=chunk), "# Array.tofile across a chunk boundary\nassert False", exp.hex(), str(got)[:100])
                acc.outcome(('chunk', chunk, L))
        acc.sample(dict(chunk_bits=chunk, lsb0=lsb0, event="tofile(BytesIO) for contents of chunk-1, chunk, chunk+1, 2*chunk+3 ... bits"))


class HashSink:
    def __init__(self):
        self.h = hashlib.blake2b(digest_size=16)
        self.n = 0

    def write(self, b):
        self.h.update(b)
        self.n += len(b)


def huge(bs, acc):
    """Hook off: cross the real 100 MiB chunk boundary once, writing into a hashing sink that stores nothing."""
    os.environ.pop(CHUNK_ENV, None)
    nbits = 8 * 100 * 1024 * 1024 + 9
    unit = bytes(range(256)) * 4096            # 1 MiB pattern
    data = unit * 100 + b'\xa5\x80'
    s = bs.Bits(bytes=data, length=nbits)
    sink = HashSink()
    with core.watchdog(900):
        s.tofile(sink)
    ref = hashlib.blake2b(digest_size=16)
    ref.update(data[:-1])
    ref.update(bytes([data[-1] & 0x80]))
    acc.step('tofile-chunk', 1, nontrivial=1, ok=1)
    acc.state(('huge', nbits))
    if sink.n != len(data) or sink.h.digest() != ref.digest():
        acc.violation('tofile-chunk', 'value', dict(bits=nbits, chunk='100MiB', group='huge'),
                      "# tofile of 100 MiB + 9 bits wrote %d bytes (expected %d) or different content\nassert False" % (sink.n, len(data)), len(data), sink.n)
    acc.sample(dict(event="Bits(100 MiB + 9 bits).tofile(hashing sink), guard-independent real chunk size"))


def arrays(bs, acc, ctx):
    import struct
    specs = [('uint3', [0, 7, 5, 1, 2]), ('uint8', [0, 255, 178, 1]), ('int12', [-2048, 2047, -1, 5, 0]), ('float16', [1.0, -2.5, 65504.0]), ('uintle16', [1, 65535, 513]), ('bool', [1, 0, 1])]
    for dt, vals in specs:
        for n in range(len(vals) + 1):
            for trailing in ('', '1', '0110101'):
                a = bs.Array(dt, vals[:n], trailing_bits=('0b' + trailing) if trailing else None)
                d = a.data.bin
                exp = tob(d)
                acc.state((dt, n, trailing))
                got = obs(lambda: a.tobytes())
                acc.step('array-tobytes', 1, nontrivial=1, ok=1)
                if got != ('ok', exp):
                    acc.violation('array-tobytes', 'value', dict(dtype=dt, n=n, trailing=trailing), "# Array.tobytes != padded data\nassert False", exp, got)
                f = io.BytesIO()
                got = obs(lambda: (a.tofile(f), f.getvalue())[1])
                acc.step('array-tobytes', 1, nontrivial=1, ok=1)
                if got != ('ok', exp):
                    acc.violation('array-tobytes', 'value', dict(dtype=dt, n=n, trailing=trailing, what='tofile'), "# Array.tofile != padded data\nassert False", exp, got)
        # fromfile(f, n): reads whole items from a real file; EOFError when fewer than n are available
        w = bs.Dtype(dt).bitlength
        full = bs.Array(dt, vals)
        path = os.path.join(ctx.dir, f'arr-{dt}.bin')
        with open(path, 'wb') as fh:
            full.tofile(fh)
        file_bits = tob(full.data.bin)
        avail = (len(file_bits) * 8) // w
        whole = ''.join(format(b, '08b') for b in file_bits)
        for n in [None] + list(range(0, avail + 3)):
            b = bs.Array(dt)

            def ff():
                with open(path, 'rb') as fh:
                    b.fromfile(fh, n)
                return b.data.bin
            got = obs(ff)
            take = avail if n is None else min(n, avail)
            if n is not None and n > avail:
                exp = ('exc', 'EOFError')
            else:
                exp = ('ok', whole[:take * w])
            acc.step('array-fromfile', 1, nontrivial=int(exp[0] == 'ok'), ok=int(exp[0] == 'ok'), rej=int(exp[0] != 'ok'))
            if got != exp or (exp[0] == 'exc' and b.data.bin != whole[:take * w]):
                acc.violation('array-fromfile', 'value' if got[0] == 'ok' else 'exc', dict(dtype=dt, n=n, available=avail),
                              '\n'.join(["import bitstring, tempfile, os", "p = os.path.join(tempfile.mkdtemp(), 'a')", f"fh = open(p, 'wb'); bitstring.Array({dt!r}, {vals!r}).tofile(fh); fh.close()",
                                         f"b = bitstring.Array({dt!r})", "try:", f"    b.fromfile(open(p, 'rb'), {n})", "    r = 'ok'", "except EOFError:", "    r = 'EOFError'",
                                         f"assert (r, b.data.bin) == ({'ok' if exp[0] == 'ok' else 'EOFError'!r}, {whole[:take * w]!r}), (r, b.data.bin)"]), exp, (got, b.data.bin))
            acc.outcome(('fromfile', dt, n, exp[0]))
    acc.sample(dict(event="Array(dt, vals).tofile(f); Array(dt).fromfile(f, n) for n in None, 0..available+2"))
