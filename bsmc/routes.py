"""Construction routes: every way of building a bitstring with given bits (C08 / C13 / C17 / C04).

route(bs, cls, bits, ctx) -> object ;  ctx provides a scratch directory for file-backed routes.
Each route has a source template for replay snippets. A route returns None when it cannot represent the content
(e.g. hex= needs a multiple of 4 bits).
"""
from __future__ import annotations

import array
import io
import os
import tempfile


class Ctx:
    """Per-shard scratch directory; files are written before and never changed during the life of a mapped object."""

    def __init__(self):
        self._td = tempfile.TemporaryDirectory(prefix='bsmc-')
        self.dir = self._td.name
        self._n = 0
        self._files = {}

    def file_for(self, payload: bytes):
        f = self._files.get(payload)
        if f is None:
            self._n += 1
            f = os.path.join(self.dir, f"f{self._n}.bin")
            with open(f, 'wb') as fh:
                fh.write(payload)
            self._files[payload] = f
        return f

    def close(self):
        self._td.cleanup()


def to_bytes(bits):
    """bits padded with zeros to a byte boundary."""
    if not bits:
        return b''
    pad = (-len(bits)) % 8
    return int(bits + '0' * pad, 2).to_bytes((len(bits) + pad) // 8, 'big')


def embed(bits, offset, tail='1011'):
    """(payload bytes, offset, length): `bits` placed after `offset` junk bits and followed by junk so the source is longer."""
    pre = ('10010110' * 4)[:offset]
    allbits = pre + bits + tail * 3
    return to_bytes(allbits), offset, len(bits)


def _lit(bits):
    return ('0b' + bits) if bits else ''


ROUTES = {}


def route(name, src):
    def deco(fn):
        ROUTES[name] = (fn, src)
        return fn
    return deco


@route('bin', "bitstring.{cls}(bin={bits!r})")
def r_bin(bs, cls, bits, ctx):
    return getattr(bs, cls)(bin=bits)


@route('hex', "bitstring.{cls}(hex={hex!r})")
def r_hex(bs, cls, bits, ctx):
    if len(bits) % 4:
        return None
    return getattr(bs, cls)(hex=format(int(bits, 2), f'0{len(bits) // 4}x') if bits else '')


@route('oct', "bitstring.{cls}(oct={oct!r})")
def r_oct(bs, cls, bits, ctx):
    if len(bits) % 3:
        return None
    return getattr(bs, cls)(oct=format(int(bits, 2), f'0{len(bits) // 3}o') if bits else '')


@route('str', "bitstring.{cls}({lit!r})")
def r_str(bs, cls, bits, ctx):
    return getattr(bs, cls)(_lit(bits))


@route('str_again', "(bitstring.Bits({lit!r}), bitstring.{cls}({lit!r}))[1]")
def r_str_again(bs, cls, bits, ctx):
    bs.Bits(_lit(bits))          # warm the string cache first
    return getattr(bs, cls)(_lit(bits))


@route('fromstring', "bitstring.{cls}.fromstring({lit!r})")
def r_fromstring(bs, cls, bits, ctx):
    return getattr(bs, cls).fromstring(_lit(bits))


@route('bytes_kw', "bitstring.{cls}(bytes={by!r}, length={n})")
def r_bytes_kw(bs, cls, bits, ctx):
    return getattr(bs, cls)(bytes=to_bytes(bits), length=len(bits))


@route('bytes_off3', "bitstring.{cls}(bytes={emb3!r}, offset=3, length={n})")
def r_bytes_off3(bs, cls, bits, ctx):
    p, o, n = embed(bits, 3)
    return getattr(bs, cls)(bytes=p, offset=o, length=n)


@route('bytes_off8', "bitstring.{cls}(bytes=bytearray({emb8!r}), offset=8, length={n})")
def r_bytes_off8(bs, cls, bits, ctx):
    p, o, n = embed(bits, 8)
    return getattr(bs, cls)(bytes=bytearray(p), offset=o, length=n)


@route('bytes_auto', "bitstring.{cls}({by!r})")
def r_bytes_auto(bs, cls, bits, ctx):
    if len(bits) % 8:
        return None
    return getattr(bs, cls)(to_bytes(bits))


@route('bytearray', "bitstring.{cls}(bytearray({by!r}))")
def r_bytearray(bs, cls, bits, ctx):
    if len(bits) % 8:
        return None
    return getattr(bs, cls)(bytearray(to_bytes(bits)))


@route('memoryview', "bitstring.{cls}(memoryview({by!r}))")
def r_memoryview(bs, cls, bits, ctx):
    if len(bits) % 8:
        return None
    return getattr(bs, cls)(memoryview(to_bytes(bits)))


def interleave(by):
    """bytes with a junk byte after each payload byte: memoryview(...)[::2] is the payload, non-contiguous."""
    return bytes(b for x in by for b in (x, 0xA5))


@route('memoryview_strided', "bitstring.{cls}(memoryview({by2!r})[::2])")
def r_memoryview_strided(bs, cls, bits, ctx):
    if len(bits) % 8 or not bits:
        return None
    return getattr(bs, cls)(memoryview(interleave(to_bytes(bits)))[::2])


@route('memoryview_reversed', "bitstring.{cls}(bytes=memoryview({byr!r})[::-1])")
def r_memoryview_reversed(bs, cls, bits, ctx):
    if len(bits) % 8 or not bits:
        return None
    return getattr(bs, cls)(bytes=memoryview(to_bytes(bits)[::-1])[::-1])


@route('memoryview_strided_off', "bitstring.{cls}(bytes=memoryview({emb3s!r})[::2], offset=3, length={n})")
def r_memoryview_strided_off(bs, cls, bits, ctx):
    by, off, n = embed(bits, 3)
    return getattr(bs, cls)(bytes=memoryview(interleave(by))[::2], offset=off, length=n)


@route('array_B', "bitstring.{cls}(__import__('array').array('B', {by!r}))")
def r_array(bs, cls, bits, ctx):
    if len(bits) % 8:
        return None
    return getattr(bs, cls)(array.array('B', to_bytes(bits)))


@route('list', "bitstring.{cls}([c == '1' for c in {bits!r}])")
def r_list(bs, cls, bits, ctx):
    return getattr(bs, cls)([c == '1' for c in bits])


@route('tuple', "bitstring.{cls}(tuple(int(c) for c in {bits!r}))")
def r_tuple(bs, cls, bits, ctx):
    return getattr(bs, cls)(tuple(int(c) for c in bits))


@route('gen', "bitstring.{cls}(int(c) for c in {bits!r})")
def r_gen(bs, cls, bits, ctx):
    return getattr(bs, cls)(int(c) for c in bits)


@route('bitarray', "bitstring.{cls}(__import__('bitarray').bitarray({bits!r}))")
def r_bitarray(bs, cls, bits, ctx):
    import bitarray
    return getattr(bs, cls)(bitarray.bitarray(bits))


@route('bitarray_kw', "bitstring.{cls}(bitarray=__import__('bitarray').bitarray({bits5!r}), offset=2, length={n})")
def r_bitarray_kw(bs, cls, bits, ctx):
    import bitarray
    return getattr(bs, cls)(bitarray=bitarray.bitarray('10' + bits + '011'), offset=2, length=len(bits))


@route('bitarray_le', "bitstring.{cls}(__import__('bitarray').bitarray({bits!r}, endian='little'))")
def r_bitarray_le(bs, cls, bits, ctx):
    import bitarray
    return getattr(bs, cls)(bitarray.bitarray(bits, endian='little'))


@route('bitarray_le_kw', "bitstring.{cls}(bitarray=__import__('bitarray').bitarray({bits5!r}, endian='little'), offset=2, length={n})")
def r_bitarray_le_kw(bs, cls, bits, ctx):
    import bitarray
    return getattr(bs, cls)(bitarray=bitarray.bitarray('10' + bits + '011', endian='little'), offset=2, length=len(bits))


@route('bytesio', "bitstring.{cls}(__import__('io').BytesIO({emb3!r}), offset=3, length={n})")
def r_bytesio(bs, cls, bits, ctx):
    p, o, n = embed(bits, 3)
    return getattr(bs, cls)(io.BytesIO(p), offset=o, length=n)


@route('bytesio0', "bitstring.{cls}(__import__('io').BytesIO({emb0!r}), length={n})")
def r_bytesio0(bs, cls, bits, ctx):
    p, o, n = embed(bits, 0)
    return getattr(bs, cls)(io.BytesIO(p), length=n)


@route('bytesio_whole', "bitstring.{cls}(__import__('io').BytesIO({by!r}))")
def r_bytesio_whole(bs, cls, bits, ctx):
    if len(bits) % 8:
        return None
    return getattr(bs, cls)(io.BytesIO(to_bytes(bits)))


@route('bytesio_reused', "(lambda f: (bitstring.Bits(f), bitstring.{cls}(f))[1])(__import__('io').BytesIO({by!r}))")
def r_bytesio_reused(bs, cls, bits, ctx):
    """the same BytesIO object used for a second bitstring: its cursor position must play no part"""
    if len(bits) % 8:
        return None
    f = io.BytesIO(to_bytes(bits))
    bs.Bits(f)
    return getattr(bs, cls)(f)


@route('bytesio_written', "(lambda f: (f.write({by!r}), bitstring.{cls}(f))[1])(__import__('io').BytesIO())")
def r_bytesio_written(bs, cls, bits, ctx):
    """a BytesIO filled by write(): the cursor is at the end"""
    if len(bits) % 8:
        return None
    f = io.BytesIO()
    f.write(to_bytes(bits))
    return getattr(bs, cls)(f)


@route('bytesio_window_after_read', "(lambda f: (f.read(1), bitstring.{cls}(f, offset=3, length={n}))[1])(__import__('io').BytesIO({emb3!r}))")
def r_bytesio_window_after_read(bs, cls, bits, ctx):
    p, o, n = embed(bits, 3)
    f = io.BytesIO(p)
    f.read(1)
    return getattr(bs, cls)(f, offset=o, length=n)


@route('slice', "bitstring.{cls}(bin={bits5!r})[2:{n}+2]")
def r_slice(bs, cls, bits, ctx):
    return getattr(bs, cls)(bin='10' + bits + '011')[2:len(bits) + 2]


@route('stepslice', "bitstring.{cls}(bin={dbl!r})[::2]")
def r_stepslice(bs, cls, bits, ctx):
    return getattr(bs, cls)(bin=''.join(c + '1' for c in bits))[::2]


@route('copy', "__import__('copy').copy(bitstring.{cls}(bin={bits!r}))")
def r_copy(bs, cls, bits, ctx):
    import copy
    return copy.copy(getattr(bs, cls)(bin=bits))


@route('deepcopy', "__import__('copy').deepcopy(bitstring.{cls}(bin={bits!r}))")
def r_deepcopy(bs, cls, bits, ctx):
    import copy
    return copy.deepcopy(getattr(bs, cls)(bin=bits))


@route('pickle', "__import__('pickle').loads(__import__('pickle').dumps(bitstring.{cls}(bin={bits!r})))")
def r_pickle(bs, cls, bits, ctx):
    import pickle
    return pickle.loads(pickle.dumps(getattr(bs, cls)(bin=bits)))


@route('pickle_filewindow', "__import__('pickle').loads(__import__('pickle').dumps(bitstring.{cls}(filename=FILE(0, {bits!r}, True), length={n})))")
def r_pickle_filewindow(bs, cls, bits, ctx):
    import pickle
    if not bits:
        return None
    by, off, n = embed(bits, 0)
    return pickle.loads(pickle.dumps(getattr(bs, cls)(filename=ctx.file_for(by), length=n)))


@route('from_mutated', "(lambda m: (m.append({lit!r}), m.__delitem__(slice(0, 3)), bitstring.{cls}(m))[2])(bitstring.BitArray('0b101'))")
def r_from_mutated(bs, cls, bits, ctx):
    m = bs.BitArray('0b101')
    m.append(_lit(bits))
    del m[0:3]
    return getattr(bs, cls)(m)


@route('add', "bitstring.{cls}(bin={h1!r}) + bitstring.Bits(bin={h2!r})")
def r_add(bs, cls, bits, ctx):
    k = len(bits) // 2
    return getattr(bs, cls)(bin=bits[:k]) + bs.Bits(bin=bits[k:])


@route('uint', "bitstring.{cls}(uint={uint}, length={n})")
def r_uint(bs, cls, bits, ctx):
    if not bits:
        return None
    return getattr(bs, cls)(uint=int(bits, 2), length=len(bits))


@route('pack', "bitstring.{cls}(bitstring.pack('bin', {bits!r}))")
def r_pack(bs, cls, bits, ctx):
    return getattr(bs, cls)(bs.pack('bin', bits))


# ---- file-backed routes -----------------------------------------------------------------
def _file_route(name, offset, exact, handle=False):
    """exact: the file holds exactly the bits (whole bytes) / else the file is longer and length= limits it."""
    def fn(bs, cls, bits, ctx):
        c = getattr(bs, cls)
        if exact:
            if len(bits) % 8 or not bits:
                return None
            f = ctx.file_for(to_bytes(bits))
            if handle:
                with open(f, 'rb') as fh:
                    return c(fh)
            return c(filename=f)
        if not bits and offset is None:
            pass
        p, o, n = embed(bits, offset or 0)
        f = ctx.file_for(p)
        kw = dict(length=n)
        if offset is not None:
            kw['offset'] = offset
        if handle:
            with open(f, 'rb') as fh:
                return c(fh, **kw)
        return c(filename=f, **kw)
    src = ("bitstring.{cls}(filename=FILE(%r, {bits!r}))" % (offset,)) if exact else \
          ("bitstring.{cls}(filename=FILE(%r, {bits!r}, pad=True), length={n}%s)" % (offset, '' if offset is None else f', offset={offset}'))
    if handle:
        src = src.replace("filename=FILE", "HANDLE", 1)
    ROUTES[name] = (fn, src)


_file_route('file_whole', None, True)
_file_route('file_handle_whole', None, True, handle=True)
_file_route('file_len', None, False)             # offset defaulted, length shorter than the file
_file_route('file_off0_len', 0, False)
_file_route('file_off3_len', 3, False)
_file_route('file_off8_len', 8, False)
_file_route('file_handle_len', None, False, handle=True)
_file_route('file_handle_off3_len', 3, False, handle=True)

FILE_ROUTES = [r for r in ROUTES if r.startswith('file_')]
MEM_ROUTES = [r for r in ROUTES if not r.startswith('file_')]

SNIPPET_PRELUDE = '''import bitstring, tempfile, os, atexit
_td = tempfile.TemporaryDirectory(); atexit.register(_td.cleanup)
def _tb(bits):
    pad = (-len(bits)) % 8
    return int(bits + '0' * pad, 2).to_bytes((len(bits) + pad) // 8, 'big') if bits else b''
def FILE(offset, bits, pad=False):
    allbits = ('10010110' * 4)[:offset or 0] + bits + ('1011' * 3 if pad else '')
    f = os.path.join(_td.name, 'f%d.bin' % len(os.listdir(_td.name)))
    open(f, 'wb').write(_tb(allbits)); return f
def HANDLE(*a, **k):
    return open(FILE(*a, **k), 'rb')
'''


def source(name, cls, bits):
    """Python expression text that builds the object through route `name`."""
    fn, src = ROUTES[name]
    n = len(bits)
    fmt = dict(cls=cls, bits=bits, n=n, lit=_lit(bits), by=to_bytes(bits),
               hex=format(int(bits, 2), f'0{n // 4}x') if bits and n % 4 == 0 else '',
               oct=format(int(bits, 2), f'0{n // 3}o') if bits and n % 3 == 0 else '',
               by2=interleave(to_bytes(bits)), byr=to_bytes(bits)[::-1], emb3s=interleave(embed(bits, 3)[0]), emb0=embed(bits, 0)[0], emb3=embed(bits, 3)[0], emb8=embed(bits, 8)[0], bits5='10' + bits + '011',
               dbl=''.join(c + '1' for c in bits), h1=bits[:n // 2], h2=bits[n // 2:], uint=int(bits, 2) if bits else 0)
    return src.format(**fmt)


def build(bs, name, cls, bits, ctx):
    return ROUTES[name][0](bs, cls, bits, ctx)
