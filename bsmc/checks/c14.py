"""C14 - Array behaves as a list of fixed-width items over one contiguous bit buffer (BFS).

world = one Array `a`; model state = (dtype key, data bits)  -> items = decoded chunks, trailing = the rest.
Every transition compares the return value and (dtype, data, tolist(), len, trailing_bits) with the list model.
"""
from __future__ import annotations

import array as pyarray
import math
import operator

from .. import core, bfs
from ..bfs import Event
from ..models import array as A

PROPERTY = 'C14'
VACUITY = dict(need_ok=['getitem', 'getslice', 'setitem', 'setslice', 'delitem', 'delslice', 'append', 'extend', 'insert', 'pop', 'reverse', 'count', 'equals', 'copy',
                        'astype', 'setdtype', 'byteswap', 'scalarop', 'arrayop', 'iarrayop', 'iop', 'bitop', 'compare', 'unary', 'promote'],
               need_rej=['getitem', 'setitem', 'append', 'extend', 'pop', 'reverse', 'scalarop', 'iop', 'byteswap', 'setslice'], min_outcomes=300)

STR = {'<H': 'uintle16', '>b': 'int8', '=l': 'intle32', 'p4binary8': 'p4binary', 'bool': 'bool', 'bfloat': 'bfloat', 'e2m1mxfp': 'e2m1mxfp', 'e3m2mxfp': 'e3m2mxfp'}
Q_DTYPES = ['uint3', 'int4', 'uint8', 'int8', 'bool', 'hex4', 'bin2', 'oct3', 'float16', 'bfloat', 'p4binary8', 'e2m1mxfp', 'bytes1', 'bytes2', 'bytes3', '<H', '>b', '=l', 'uintle16', 'intbe24']
T_DTYPES = Q_DTYPES + ['float32', 'float64', 'uint65', 'e3m2mxfp', 'uint12']


def describe(tier):
    q = tier == 'quick'
    return dict(bounds=dict(dtypes=Q_DTYPES if q else T_DTYPES, roots='item lists of length 0..3 from 3 values per dtype (incl. extremes) x trailing bits in {none, 1}',
                            plan='depth 1: full menu (~250 events); depth 2: reduced menu; %s' % ('depth 3 with <= 1 deviation from roots of <= 1 item' if q else 'depth 3 reduced; depth 4 with <= 1 deviation'),
                            promotion='all ordered dtype pairs for array-array operators'),
                rule='BFS over Array operation histories with ((dtype, data), no hidden state) deduplication, replay from the root; after every event dtype, data, tolist(), len and '
                     'trailing_bits are compared with the list model; non-trivial = the model accepts the call and it returns a value or changes the state',
                assumptions=['list semantics from Python list; encoders from int arithmetic / struct / models.minifloat; promotion rules from doc/array.rst',
                             'unspecified: true division on integer dtypes (result converted with int()), operators on non-numeric dtypes (any exception accepted)'])


def selftest():
    A.selftest()


def dstr(key):
    return STR.get(key, key)


def cv(v):
    if isinstance(v, float):
        return ('f', 'nan' if v != v else v.hex())
    if isinstance(v, (list, tuple)):
        return tuple(cv(x) for x in v)
    if isinstance(v, (bytes, bytearray)):
        return ('b', bytes(v).hex())
    return v


def model_view(st):
    key, bits = st
    m = A.from_data(key, bits)
    return (dstr(key), bits, tuple(cv(x) for x in A.items(m)), len(m[1]), m[2])


def shards(tier, seed):
    q = tier == 'quick'
    out = []
    for key in (Q_DTYPES if q else T_DTYPES):
        dt = A.DTYPES[key]
        vals = dt.values
        lists = [[], [vals[0]], [vals[1], vals[2]], [vals[0], vals[1], vals[2]]]
        for li, lst in enumerate(lists):
            for tr in ('', '1'):
                out.append(dict(kind='bfs', dtype=key, n=li, items=li, trailing=tr))
    out.append(dict(kind='promote'))
    return out


class System:
    def __init__(self, bs, key):
        self.bs = bs
        self.key0 = key
        self._menus = {}

    def build(self, root):
        dt = A.DTYPES[root['dtype']]
        lst = [[], [dt.values[0]], [dt.values[1], dt.values[2]], list(dt.values)][root['items']]
        a = self.bs.Array(root['dtype'], lst, trailing_bits=('0b' + root['trailing']) if root['trailing'] else None)
        return {'bitstring': self.bs, 'a': a, 'array': pyarray, 'math': math, 'Array': self.bs.Array, 'nan': float('nan'), 'inf': float('inf'), 'FLOOD': self.flood}

    def flood(self):
        """Create more distinct Dtypes than the Dtype caches hold, so that objects created afterwards no longer share cached Dtype objects
        with those created before."""
        for i in range(300):
            self.bs.Dtype('uint', 70 + i)
            self.bs.Dtype(f'int{70 + i}')
        return None

    def root_src(self, root):
        dt = A.DTYPES[root['dtype']]
        lst = [[], [dt.values[0]], [dt.values[1], dt.values[2]], list(dt.values)][root['items']]
        tr = f", trailing_bits='0b{root['trailing']}'" if root['trailing'] else ''
        return [f"a = bitstring.Array({root['dtype']!r}, {lst!r}{tr})"]

    def observe(self, world):
        a = world['a']
        # the model key is tracked through the dtype string (setdtype events change it).  Derived attributes are read at EVERY observation, so
        # a value cached at one point and stale after a later event (itemsize after a dtype change, len after an append) shows as a state the
        # model cannot produce.
        w = a.dtype.bitlength
        if a.itemsize != w or len(a) != len(a.data) // w or len(a.trailing_bits) != len(a.data) % w or len(list(a)) != len(a):
            return (str(a.dtype), a.data.bin, 'INCONSISTENT', f"itemsize={a.itemsize} dtype-width={w} len={len(a)} iter={len(list(a))} data={len(a.data)} trailing={len(a.trailing_bits)}")
        return (str(a.dtype), a.data.bin)

    def full_view(self, world):
        a = world['a']
        return (str(a.dtype), a.data.bin, tuple(cv(x) for x in a.tolist()), len(a), a.trailing_bits.bin)

    def fingerprint(self, world):
        return None

    def events(self, st, depth, menu):
        key = self.key_of(st)
        m = A.from_data(key, st[1])
        k = (key, len(m[1]), len(m[2]), menu)
        if k not in self._menus:
            self._menus[k] = build_menu(key, len(m[1]), bool(m[2]), menu)
        return self._menus[k]

    def key_of(self, st):
        for k in A.DTYPES:
            if dstr(k) == st[0] and (k == self.key0 or k not in STR):
                return k
        for k in A.DTYPES:
            if dstr(k) == st[0]:
                return k
        raise KeyError(st[0])

    def model(self, st, ev):
        key = self.key_of(st)
        alts = model_step((key, st[1]), ev)
        return [(p, (dstr(k2), b2)) for p, (k2, b2) in alts]

    def snippet(self, root, hist, ev, accept):
        lines = ["import bitstring, array, math", "from bitstring import Array", "nan, inf = float('nan'), float('inf')", CV_SRC] + \
                (["def FLOOD():", "    [bitstring.Dtype('uint', 70 + i) for i in range(300)]; [bitstring.Dtype(f'int{70 + i}') for i in range(300)]"]
                 if any('FLOOD(' in x.src for x in list(hist) + [ev]) else []) + self.root_src(root)
        for h in hist:
            lines += ["try:", f"    {h.src}", "except Exception:", "    pass"]
        is_expr = True
        try:
            compile(ev.src, '<e>', 'eval')
        except SyntaxError:
            is_expr = False
        lines += ["try:", f"    r = ('ok', cv({ev.src}))" if is_expr else f"    {ev.src}; r = ('ok', None)", "except Exception as e:", "    r = ('exc', None)"]
        if accept is not None:
            lines.append(f"accept = {[(list(p) if p[0] == 'ok' else ['exc', None], list(n)) for p, n in accept]!r}")
            lines.append("assert any(cv(p[1]) == r[1] and p[0] == r[0] and (str(a.dtype), a.data.bin) == tuple(n) for p, n in accept), (r, str(a.dtype), a.data.bin)")
        return '\n'.join(lines)


CV_SRC = '''def cv(v):
    if isinstance(v, float): return ('f', 'nan' if v != v else v.hex())
    if isinstance(v, (list, tuple)): return tuple(cv(x) for x in v)
    if isinstance(v, (bytes, bytearray)): return ('b', bytes(v).hex())
    if isinstance(v, bitstring.Array): return ('A', str(v.dtype), v.data.bin)
    return v'''


def canon_ret(v, world):
    bs = core.import_bitstring()
    if isinstance(v, bs.Array):
        return ('A', str(v.dtype), v.data.bin)
    return cv(v)


def vsrc(v):
    if isinstance(v, float):
        if v != v:
            return 'nan'
        if math.isinf(v):
            return 'inf' if v > 0 else '-inf'
    return repr(v)


def build_menu(key, n, has_trailing, menu):
    dt = A.DTYPES[key]
    full = menu == 'full'
    ev = []
    E = lambda op, args, src, dev=False: ev.append(Event(op, args, src, dev))
    vals = list(dt.values)
    bad = {'int': [1 << 70, -(1 << 70)], 'str': ['zz', ''], 'float': ['x'], 'bytes': [b'', b'toolong!']}[dt.kind]
    idxs = list(dict.fromkeys([-n - 1, -n, -1, 0, 1, n - 1, n, n + 1])) if full else [0, -1, n]
    for i in idxs:
        E('getitem', (i,), f"a[{i}]", not 0 <= i < n)
        E('delitem', (i,), f"del a[{i}]", not 0 <= i < n)
        for v in (vals[:2] + bad[:1] if full else vals[:1]):
            E('setitem', (i, v), f"a[{i}] = {vsrc(v)}", not 0 <= i < n or v in bad)
        E('pop', (i,), f"a.pop({i})", not 0 <= i < n)
    E('pop', (None,), "a.pop()")
    sl = [None, 0, 1, -1, n, n + 1] if full else [None, 1]
    steps = [None, 1, 2, -1, -2] if full else [None, 2, -1]
    for x in sl:
        for y in sl:
            for z in steps:
                s = _sl(x, y, z)
                dev = z not in (None, 1) or (x is not None and x < 0)
                E('getslice', (x, y, z), f"a[{s}]", dev)
                if full or (x, y) == (None, None) or z is None:
                    E('delslice', (x, y, z), f"del a[{s}]", dev)
                reps = [('list0', []), ('list1', [vals[0]]), ('list2', [vals[1], vals[0]]), ('list3', [vals[2], vals[2], vals[1]]), ('bad', [vals[0], bad[0]])]
                if not full:
                    reps = reps[1:3]
                for tag, lst in reps:
                    lsrc = '[' + ', '.join(vsrc(v) for v in lst) + ']'
                    E('setslice', (x, y, z, tuple(lst)), f"a[{s}] = {lsrc}", dev or tag in ('bad', 'list0'))
                if full and x in (None, 1) and y in (None, n):
                    lst = [vals[1], vals[0]]
                    lsrc = '[' + ', '.join(vsrc(v) for v in lst) + ']'
                    E('setslice', (x, y, z, tuple(lst)), f"a[{s}] = (v for v in {lsrc})", True)
                    E('setslice', (x, y, z, tuple(lst)), f"a[{s}] = tuple({lsrc})", True)
    for v in (vals + bad if full else vals[:1]):
        E('append', (v,), f"a.append({vsrc(v)})", v in bad)
    for i in ((-9, -1, 0, 1, n, n + 5, -n) if full else (0, n)):
        for v in (vals[:1] + bad[:1] if full else vals[1:2]):
            E('insert', (i, v), f"a.insert({i}, {vsrc(v)})", i not in (0, n) or v in bad)
    ext = [('list', [vals[0], vals[1]]), ('tuple', [vals[2]]), ('gen', [vals[1], vals[2]]), ('empty', []), ('bad', [vals[0], bad[0]])]
    for tag, lst in (ext if full else ext[:1]):
        lsrc = '[' + ', '.join(vsrc(v) for v in lst) + ']'
        src = {'list': lsrc, 'tuple': f"tuple({lsrc})", 'gen': f"(v for v in {lsrc})", 'empty': '[]', 'bad': lsrc}[tag]
        E('extend', ('values', tuple(lst)), f"a.extend({src})", tag in ('bad', 'empty'))
    if full:
        lsrc = '[' + ', '.join(vsrc(v) for v in vals[:2]) + ']'
        E('extend', ('values', tuple(vals[:2])), f"a.extend(Array({key!r}, {lsrc}))", True)
        E('extend', ('self',), "a.extend(a)", True)
        other = 'uint8' if key != 'uint8' else 'int8'
        E('extend', ('otherdtype',), f"a.extend(Array({other!r}, [1]))", True)
        E('extend', ('str',), "a.extend('0x1')", True)
        # Arrays of the same format created on either side of an eviction from the Dtype caches are still the same format
        E('extend', ('values', tuple(vals[:2]), 'after-flood'), f"(FLOOD(), a.extend(Array({key!r}, {lsrc})))[1]", True)
        E('equals', ('same-after-flood',), f"(FLOOD(), a.equals(Array({key!r}, a.tolist())))[1]", True)
        if key in ('<H', 'uintle16', '=l', '>b', 'uint8', 'int8'):
            tc = {'<H': 'H', 'uintle16': 'H', '=l': 'i', '>b': 'b', 'uint8': 'B', 'int8': 'b'}[key]
            E('extend', ('values', (1, 2)), f"a.extend(array.array({tc!r}, [1, 2]))", True)
            E('extend', ('badarray',), f"a.extend(array.array('d', [1.0]))", True)
    E('reverse', (), "a.reverse()")
    for v in (vals + [bad[0]] if full else vals[:1]):
        E('count', (v,), f"a.count({vsrc(v)})", v in bad)
    if dt.kind == 'float' and full:
        E('count', (float('nan'),), "a.count(nan)", True)
    E('tolist', (), "a.tolist()")
    if full:
        E('tolist', (), "list(iter(a))")
        E('tolist', (), "[x for x in a]")
        E('len', (), "len(a)")
        E('copy', (), "__import__('copy').copy(a)")
        E('copy', (), "a[:]", False)
        if n >= 2:
            # an iterator reads the live data, like a list iterator: an item assigned after iteration has begun is seen
            E('iterlive', (vals[0],), f"(lambda it: (next(it), a.__setitem__({n - 1}, {vsrc(vals[0])}), list(it))[::2])(iter(a))", True)
        E('equals', ('self',), "a.equals(a)")
        E('equals', ('copy',), "a.equals(a[:])", False)
        E('equals', ('other',), f"a.equals(Array({key!r}, [{vsrc(vals[0])}]))")
        E('equals', ('otherdtype',), f"a.equals(Array({'uint8' if key != 'uint8' else 'int8'!r}, a.data))")
        E('equals', ('nonarray',), "a.equals([1])")
        E('tobytes', (), "a.tobytes()")
        E('trailing', (), "a.trailing_bits.bin")
        E('itemsize', (), "a.itemsize")
    # dtype changes: data must not change
    for nk in (('uint8', 'bin2', 'uint3', '<H', 'bytes2') if full else ('uint8',)):
        if nk != key:
            E('setdtype', (nk,), f"a.dtype = {nk!r}", True)
    if full:
        E('setdtype', ('bad',), "a.dtype = 'ue'", True)
        E('setdtype', ('bad',), "a.dtype = 'nonsense'", True)
        for nk in ('float16', 'uint8', 'int4', 'hex4'):
            # UNSPECIFIED: casting between text-like and numeric dtypes (what float('11') or int('f') should mean); only like-to-like casts are generated
            if (A.DTYPES[nk].kind in ('int', 'float')) == (dt.kind in ('int', 'float')) and (dt.kind in ('int', 'float') or A.DTYPES[nk].kind == dt.kind):
                E('astype', (nk,), f"a.astype({nk!r})", True)
    E('byteswap', (), "a.byteswap()", True)
    # operators with scalars
    if dt.kind in ('int', 'float'):
        scalars = [0, 1, 2, -1, 1 << dt.width, 0.5] if full else [1, 2]
        ops = [('add', '+'), ('sub', '-'), ('mul', '*'), ('floordiv', '//'), ('truediv', '/'), ('mod', '%')] + ([('lshift', '<<'), ('rshift', '>>')] if dt.kind == 'int' else [])
        for oname, sym in (ops if full else ops[:3]):
            for sc in scalars:
                if key == 'bool' and (isinstance(sc, float) or oname == 'truediv'):
                    continue      # UNSPECIFIED: a fractional result on the bool dtype
                if oname in ('lshift', 'rshift') and (not isinstance(sc, int) or sc > 64):
                    continue      # a shift count of 2**32 would have Python build a 512 MiB integer: not a feasible argument
                E('scalarop', (oname, sc), f"a {sym} {vsrc(sc)}", sc not in (1, 2))
                E('iop', (oname, sc), f"a.__i{oname}__({vsrc(sc)}) is a", True)
        if full:
            E('scalarop', ('radd', 1), "1 + a")
            E('scalarop', ('rmul', 2), "2 * a")
            E('scalarop', ('rsub', 1), "1 - a", True)
            E('unary', ('neg',), "-a", True)
            E('unary', ('abs',), "abs(a)", True)
            for oname, sym in (('lt', '<'), ('le', '<='), ('gt', '>'), ('ge', '>='), ('eq', '=='), ('ne', '!=')):
                E('compare', (oname, 1), f"a {sym} 1", True)
            E('compare', ('eq', 'list'), "a == a.tolist()", True)
            # array operands of the same length
            for oname, sym in (('add', '+'), ('sub', '-'), ('mul', '*')):
                E('arrayop', (oname, 'self'), f"a {sym} a", True)
                E('arrayop', (oname, 'ones'), f"a {sym} Array({key!r}, [1] * len(a))", True)
                E('arrayop', (oname, 'shorter'), f"a {sym} Array({key!r}, [1] * (len(a) + 1))", True)
            for oname, sym in (('floordiv', '//'), ('truediv', '/'), ('mod', '%')):
                if key == 'bool':
                    continue      # UNSPECIFIED: a fractional result on the bool dtype (as for the scalar forms)
                E('arrayop', (oname, 'self'), f"a {sym} a", True)
                E('arrayop', (oname, 'twos'), f"a {sym} Array({key!r}, [2] * len(a))", True)
            # in-place forms with an Array operand
            for oname in ('add', 'sub', 'mul', 'floordiv', 'truediv', 'mod'):
                if key == 'bool' and oname in ('floordiv', 'truediv', 'mod'):
                    continue
                E('iarrayop', (oname, 'twos'), f"a.__i{oname}__(Array({key!r}, [2] * len(a)))", True)
                E('iarrayop', (oname, 'self'), f"a.__i{oname}__(a)", True)
                E('iarrayop', (oname, 'shorter'), f"a.__i{oname}__(Array({key!r}, [2] * (len(a) + 1)))", True)
            # array operands: every operator against the array itself (all pairs equal) and against ones
            for oname, sym in (('lt', '<'), ('le', '<='), ('gt', '>'), ('ge', '>='), ('eq', '=='), ('ne', '!=')):
                E('compare', (oname, 'self'), f"a {sym} a", True)
                E('compare', (oname, 'ones'), f"a {sym} Array({key!r}, [1] * len(a))", True)
    elif full:
        E('scalarop', ('add', 1), "a + 1", True)         # operators on non-numeric dtypes: must raise, array unchanged
        E('iop', ('add', 1), "a.__iadd__(1) is a", True)
    # bitwise with a bitstring of the item width
    if full:
        w = dt.width
        for oname, sym in (('and', '&'), ('or', '|'), ('xor', '^')):
            E('bitop', (oname, 'ones'), f"a {sym} bitstring.Bits(bin={'1' * w!r})", True)
            E('bitop', (oname, 'alt'), f"a {sym} {'0b' + ('10' * w)[:w]!r}", True)
            E('bitop', (oname, 'short'), f"a {sym} '0b1'" if w != 1 else f"a {sym} '0b11'", True)
            E('ibitop', (oname, 'alt'), f"a.__i{oname}__({'0b' + ('10' * w)[:w]!r}) is a", True)
    return ev


def _sl(a, b, c):
    f = lambda x: '' if x is None else str(x)
    return f"{f(a)}:{f(b)}" + ('' if c is None else f":{c}")


OK = lambda v, st: [(('ok', v), st)]
EXC = lambda st: [(('exc', None), st)]

OPS = {'add': operator.add, 'sub': operator.sub, 'mul': operator.mul, 'floordiv': operator.floordiv, 'truediv': operator.truediv, 'mod': operator.mod,
       'lshift': operator.lshift, 'rshift': operator.rshift, 'lt': operator.lt, 'le': operator.le, 'gt': operator.gt, 'ge': operator.ge, 'eq': operator.eq, 'ne': operator.ne}


def enc_all(dt, values):
    out = []
    for v in values:
        out.append(dt.enc(v))
    return out


def arr(key, chunks, trailing=''):
    return ('A', dstr(key), ''.join(chunks) + trailing)


def model_step(st, ev):
    key, bits = st
    dt = A.DTYPES[key]
    _, chunks, tr = A.from_data(key, bits)
    chunks = list(chunks)
    n = len(chunks)
    op, a = ev.op, ev.args
    same = (key, bits)

    def mk(ch):
        return (key, ''.join(ch) + tr)
    if op == 'getitem':
        i = a[0]
        return OK(cv(dt.dec(chunks[i])), same) if -n <= i < n else EXC(same)
    if op == 'getslice':
        return OK(arr(key, chunks[a[0]:a[1]:a[2]]), same)
    if op == 'delitem':
        i = a[0]
        if not -n <= i < n:
            return EXC(same)
        del chunks[i]
        return OK(None, mk(chunks))
    if op == 'delslice':
        del chunks[a[0]:a[1]:a[2]]
        return OK(None, mk(chunks))
    if op == 'setitem':
        i, v = a
        try:
            c = dt.enc(v)
        except A.NoFit:
            return EXC(same)
        if not -n <= i < n:
            return EXC(same)
        chunks[i] = c
        return OK(None, mk(chunks))
    if op == 'setslice':
        x, y, z, lst = a
        try:
            new = enc_all(dt, lst)
            chunks[x:y:z] = new
        except (A.NoFit, ValueError):
            return EXC(same)
        return OK(None, mk(chunks))
    if op == 'append':
        if tr:
            return EXC(same)
        try:
            return OK(None, mk(chunks + [dt.enc(a[0])]))
        except A.NoFit:
            return EXC(same)
    if op == 'extend':
        if a[0] == 'str' or a[0] == 'otherdtype' or a[0] == 'badarray':
            return EXC(same)
        if tr:
            return EXC(same)
        if a[0] == 'self':
            return OK(None, mk(chunks + chunks))
        try:
            return OK(None, mk(chunks + enc_all(dt, a[1])))
        except A.NoFit:
            return EXC(same)
    if op == 'insert':
        i, v = a
        try:
            c = dt.enc(v)
        except A.NoFit:
            return EXC(same)
        chunks.insert(i, c)
        return OK(None, mk(chunks))
    if op == 'pop':
        i = a[0]
        if n == 0:
            return EXC(same)
        if i is None:
            i = -1
        if not -n <= i < n:
            return EXC(same)
        v = dt.dec(chunks[i])
        del chunks[i]
        return OK(cv(v), mk(chunks))
    if op == 'reverse':
        if tr:
            return EXC(same)
        return OK(None, mk(chunks[::-1]))
    if op == 'count':
        v = a[0]
        vals = [dt.dec(c) for c in chunks]
        if isinstance(v, float) and v != v:
            return OK(sum(1 for x in vals if isinstance(x, float) and x != x), same)
        if v in A.DTYPES[key].values or True:
            try:
                return OK(sum(1 for x in vals if x == v), same) + ([] if _countable(dt, v) else EXC(same))
            except Exception:  # noqa: BLE001
                return EXC(same)
    if op == 'tolist':
        return OK(tuple(cv(dt.dec(c)) for c in chunks), same)
    if op == 'len':
        return OK(n, same)
    if op == 'copy':
        return OK(arr(key, chunks, tr if ev.src != 'a[:]' else ''), same)
    if op == 'iterlive':
        new = chunks[:-1] + [dt.enc(a[0])]
        return OK(cv((dt.dec(new[0]), [dt.dec(c) for c in new[1:]])), (key, ''.join(new) + tr))
    if op == 'equals':
        what = a[0]
        if what == 'self':
            return OK(True, same)
        if what == 'copy':
            return OK(tr == '', same)
        if what == 'other':
            return OK(bits == dt.enc(dt.values[0]), same)
        if what == 'same-after-flood':
            return OK(tr == '', same)      # an Array rebuilt from the items: equal unless the original carries trailing bits
        return OK(False, same)
    if op == 'tobytes':
        pad = (-len(bits)) % 8
        return OK(('b', (int(bits + '0' * pad, 2).to_bytes((len(bits) + pad) // 8, 'big') if bits else b'').hex()), same)
    if op == 'trailing':
        return OK(tr, same)
    if op == 'itemsize':
        return OK(dt.width, same)
    if op == 'setdtype':
        if a[0] == 'bad':
            return EXC(same)
        return OK(None, (a[0], bits))
    if op == 'astype':
        nd = A.DTYPES[a[0]]
        try:
            vals = [dt.dec(c) for c in chunks]
            return OK(arr(a[0], [nd.enc(_conv(nd, v)) for v in vals]), same)
        except (A.NoFit, ValueError, TypeError, OverflowError):
            return EXC(same)
    if op == 'byteswap':
        if dt.width % 8:
            return EXC(same)
        return OK(None, (key, ''.join(A.rev(c) for c in chunks) + tr))
    if op in ('scalarop', 'iop'):
        oname, sc = a
        if dt.kind not in ('int', 'float'):
            if n == 0:
                # no items: nothing to map the operator over - an empty result or a refusal are both acceptable
                return (OK(True, (key, tr)) + OK(True, (key, '')) if op == 'iop' else OK(arr(key, []), same)) + EXC(same)
            return EXC(same)
        vals = [dt.dec(c) for c in chunks]
        try:
            if oname == 'radd':
                res = [sc + v for v in vals]
            elif oname == 'rmul':
                res = [sc * v for v in vals]
            elif oname == 'rsub':
                res = [(-v) + sc for v in vals]
                [dt.enc(-v) for v in vals]
            else:
                res = [OPS[oname](v, sc) for v in vals]
            new = [dt.enc(_res(dt, r)) for r in res]
        except (A.NoFit, ZeroDivisionError, ValueError, OverflowError, TypeError):
            return EXC(same)
        if op == 'iop':
            # UNSPECIFIED: whether an in-place operator keeps the trailing bits (the statement lists get/set/delete/insert/pop only)
            return OK(True, (key, ''.join(new) + tr)) + (OK(True, (key, ''.join(new))) if tr else [])
        return OK(arr(key, new), same)
    if op == 'unary':
        if dt.kind not in ('int', 'float'):
            return EXC(same)
        vals = [dt.dec(c) for c in chunks]
        try:
            new = [dt.enc(-v if a[0] == 'neg' else abs(v)) for v in vals]
        except A.NoFit:
            return EXC(same)
        return OK(arr(key, new), same)
    if op == 'compare':
        oname, other = a
        vals = [dt.dec(c) for c in chunks]
        if other in ('self', 'list'):
            res = [OPS[oname](v, v) for v in vals]
        elif other == 'ones':
            res = [OPS[oname](v, 1) for v in vals]
        else:
            res = [OPS[oname](v, other) for v in vals]
        return OK(arr('bool', ['1' if r else '0' for r in res]), same)
    if op in ('arrayop', 'iarrayop'):
        oname, what = a
        vals = [dt.dec(c) for c in chunks]
        if what == 'shorter':
            return EXC(same)
        others = vals if what == 'self' else [2 if what == 'twos' else 1] * n
        try:
            new = [dt.enc(_res(dt, OPS[oname](x, y))) for x, y in zip(vals, others)]
        except (A.NoFit, OverflowError, ZeroDivisionError, ValueError, TypeError):
            return EXC(same)
        if op == 'iarrayop':
            # UNSPECIFIED: whether `a op= Array` works in place or rebinds to a new Array (the statement fixes the values only), and whether
            # an in-place operator keeps the trailing bits (as for the scalar in-place forms). The returned Array must hold the mapped values.
            joined = ''.join(new)
            alts = OK(arr(key, new, tr), (key, joined + tr)) + OK(arr(key, new), same)
            if tr:
                alts += OK(arr(key, new), (key, joined)) + OK(arr(key, new, tr), same)
            return alts
        return OK(arr(key, new), same)
    if op in ('bitop', 'ibitop'):
        oname, what = a
        w = dt.width
        if what == 'short':
            return EXC(same)
        mask = '1' * w if what == 'ones' else ('10' * w)[:w]
        f = {'and': lambda x, y: x & y, 'or': lambda x, y: x | y, 'xor': lambda x, y: x ^ y}[oname]
        new = [format(f(int(c, 2), int(mask, 2)), f'0{w}b') for c in chunks]
        if op == 'ibitop':
            return OK(True, (key, ''.join(new) + tr))
        return OK(arr(key, new), same)
    raise KeyError(op)


def _countable(dt, v):
    return True


def _conv(nd, v):
    """astype goes through tolist(): the values are handed to the new dtype's encoder."""
    return v


def _res(dt, r):
    if dt.kind == 'int' and isinstance(r, float):
        # UNSPECIFIED: true division on an integer dtype - the float result is converted with int()
        if r != r or math.isinf(r):
            raise A.NoFit
        return int(r)
    return r


def run_shard(shard, acc):
    bs = core.import_bitstring()
    if shard['kind'] == 'promote':
        return promote(bs, acc)
    q = acc.tier == 'quick'
    sysm = System(bs, shard['dtype'])
    if q:
        plan = [('full', None), ('reduced', None)] + ([('reduced', 1)] if shard['items'] <= 1 else [])
    else:
        plan = [('full', None), ('reduced', None), ('reduced', None), ('reduced', 1)]
    w = A.DTYPES[shard['dtype']].width

    class Checked(System):
        pass
    # every transition also validates tolist/len/trailing through the full view
    orig_observe = sysm.observe

    def observe(world):
        st = orig_observe(world)
        if len(st) > 2:
            return st
        try:
            key = sysm.key_of(st)
        except KeyError:
            return st
        fv = sysm.full_view(world)
        mv = model_view((key, st[1]))
        if fv != mv:
            return (st[0], st[1], 'VIEW-MISMATCH', fv[2:], mv[2:])
        return st
    sysm.observe = observe
    bfs.explore(sysm, acc, shard, plan, canon_ret=canon_ret, state_cap=lambda st: len(st[1]) <= 6 * w + 1, timeout=10.0)


def promote(bs, acc):
    """All dtype pairs for array-array operators: the result dtype follows the documented promotion rules."""
    # incl. pairs of equal width and signedness but different names (uintle16 / uint16 / uintbe16, intle32 / int32, uint1 / bool): the tie rule
    keys = [k for k in T_DTYPES + ['uint16', 'int32', 'uintbe16', 'uint1'] if A.DTYPES[k].kind in ('int', 'float') or k == 'bool']

    def rank(k):
        d = A.DTYPES[k]
        return d

    def promo(k1, k2):
        d1, d2 = A.DTYPES[k1], A.DTYPES[k2]
        f1, f2 = d1.kind == 'float', d2.kind == 'float'
        n1, n2 = dstr(k1), dstr(k2)
        base = lambda s: s.rstrip('0123456789')
        if base(n1) == base(n2):
            return k1 if d1.width > d2.width else k2
        if f1 and not f2:
            return k1
        if f2 and not f1:
            return k2
        if f1 and f2:
            return k2 if d2.width > d1.width else k1
        if d1.signed and not d2.signed:
            return k1
        if d2.signed and not d1.signed:
            return k2
        return k2 if d2.width > d1.width else k1
    for k1 in keys:
        for k2 in keys:
            d1, d2 = A.DTYPES[k1], A.DTYPES[k2]
            x = bs.Array(k1, [1, 0]) if k1 != 'bool' else bs.Array('bool', [True, False])
            y = bs.Array(k2, [1, 1]) if k2 != 'bool' else bs.Array('bool', [True, True])
            pk = promo(k1, k2)
            pd = A.DTYPES[pk]
            acc.state(('promote', k1, k2))
            for oname, sym in (('add', '+'), ('mul', '*'), ('sub', '-')):
                try:
                    vals = [OPS[oname](a_, b_) for a_, b_ in zip([1, 0], [1, 1])]
                    exp = ('ok', ('A', dstr(pk), ''.join(pd.enc(float(v) if pd.kind == 'float' else v) for v in vals)))
                except A.NoFit:
                    exp = ('exc', None)
                from ..bfs import run_src
                got = run_src(dict(x=x, y=y), f"x {sym} y")
                if got[0] == 'ok':
                    got = ('ok', ('A', str(got[1].dtype), got[1].data.bin))
                acc.step('promote', 1, nontrivial=int(exp[0] == 'ok'), ok=int(exp[0] == 'ok'), rej=int(exp[0] != 'ok'))
                if not (got == exp or (exp[0] == 'exc' and got[0] == 'exc')):
                    acc.violation('promote', 'value' if got[0] == 'ok' else 'exc', dict(left=k1, right=k2, op=oname, group=f"{d1.kind}-{d2.kind}"),
                                  '\n'.join(["import bitstring", f"x = bitstring.Array({k1!r}, [1, 0])", f"y = bitstring.Array({k2!r}, [1, 1])", f"r = x {sym} y",
                                             f"assert (str(r.dtype), r.data.bin) == {exp[1][1:] if exp[0] == 'ok' else None!r}, (str(r.dtype), r.data.bin)"]), exp, got)
            acc.outcome(('promote', pk))
    acc.sample(dict(event="Array(k1, [1, 0]) + Array(k2, [1, 1]) for all ordered dtype pairs: result dtype per the promotion rules"))
