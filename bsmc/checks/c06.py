"""C06 - stream reads consume exactly what they return; the position is always valid (BFS).

world = one ConstBitStream or BitStream `s`; model state = (bits, pos); oracle = bsmc.models.stream (+ mut for content).
"""
from __future__ import annotations

from .. import core, families, bfs
from ..bfs import Event
from ..models import stream as S, mut as M, golomb

PROPERTY = 'C06'
VACUITY = dict(need_ok=['read', 'peek', 'readlist', 'peeklist', 'setpos', 'bytealign', 'find', 'rfind', 'readto', 'append', 'prepend',
                        'insert', 'overwrite', 'delslice', 'setslice', 'replace', 'newstream', 'eq', 'clear', 'propset'],
               need_rej=['read', 'peek', 'readlist', 'setpos', 'bytealign', 'readto', 'bytepos'], min_outcomes=200)
CAP = 12


def describe(tier):
    q = tier == 'quick'
    return dict(bounds=dict(roots='ConstBitStream and BitStream x all contents of length <= %d x every pos; byte-structured and 17-bit '
                                  'contents at pos 0,3,8,L-1,L; constructor pos= incl. negative' % (4 if q else 5),
                            plan='full menu depth %s; reduced menu with <= 1 deviation to depth %d' % ('1-2' if q else '1-2 (3 reduced); 5-bit roots: full 1-2, then <= 1 deviation to depth 4', 3 if q else 5),
                            content_cap_bits=CAP,
                            tokens='u1 u3 i2 hex4 oct3 bin2 bool bits2 bytes1 pad2 float16 bfloat p4binary8 e2m1mxfp ue se uie sie; '
                                   'length-less bin hex oct bits bytes u i pad; Dtype objects; ints -1,0,1,3,rem,rem+1'),
                rule='BFS over stream-operation histories with ((bits,pos), hidden fingerprint) deduplication, every transition replayed from '
                     'the root; after every event value, content and pos are compared with the (bits,pos) reference machine and 0<=pos<=len; '
                     'non-trivial = the model accepts the call and it returns a value or changes the state',
                assumptions=['reference machine written from the C06 statement and doc/constbitstream.rst; golomb decode from models.golomb',
                             'p4binary8/e2m1mxfp token values are compared with the whole-bitstring property of the same bits (value semantics are C11)',
                             'accept sets widened only at: pos after operations the statement does not list (unchanged-if-valid or 0), '
                             "insert/overwrite of '' , length-less read with nothing left"])


def selftest():
    S.selftest()


def shards(tier, seed):
    q = tier == 'quick'
    out = []
    for cls in ('ConstBitStream', 'BitStream'):
        for d in families.all_bits(4 if q else 5):
            for p in range(len(d) + 1):
                out.append(dict(cls=cls, bits=d, pos=p, how='kw'))
        for d in ['10110010', '0000000110110010', '10110010000000011', '0001011001001011']:
            L = len(d)
            for p in dict.fromkeys([0, 3, 8, L - 1, L]):
                out.append(dict(cls=cls, bits=d, pos=p, how='set'))
        for d in ['10110', '10110010', '0010110100011']:
            for p in (0, 2, len(d)):
                out.append(dict(cls=cls, bits=d, pos=p, how='file'))
        out.append(dict(cls=cls, bits='0110', pos=-1, how='kw'))
        out.append(dict(cls=cls, bits='0110', pos=-4, how='kw'))
    return out


def canon(v, world=None):
    bs = core.import_bitstring()
    if isinstance(v, bs.Bits):
        return ('bits', v.bin, getattr(v, 'pos', 0))
    if isinstance(v, float):
        return S.fl(v)
    if isinstance(v, (bytes, bytearray)):
        return ('bytes', bytes(v).hex())
    if isinstance(v, list):
        return [canon(x) for x in v]
    if isinstance(v, tuple):
        return tuple(canon(x) for x in v)
    return v


BA_SRC = '''def WITH_BA(thunk):
    bitstring.options.bytealigned = True
    try:
        return thunk()
    finally:
        bitstring.options.bytealigned = False'''


class System:
    ctx = None

    def __init__(self, bs):
        self.bs = bs

    def build(self, root):
        cls = getattr(self.bs, root['cls'])
        if root['how'] == 'file':
            # a window onto a longer file (the file goes on with 1s)
            data = root['bits'] + '1' * (32 - len(root['bits']))
            s = cls(filename=self.ctx.file_for(int(data, 2).to_bytes(4, 'big')), length=len(root['bits']))
            s.pos = root['pos']
        elif root['how'] == 'kw':
            s = cls(bin=root['bits'], pos=root['pos'])
        else:
            s = cls(bin=root['bits'])
            s.pos = root['pos']
        return {'bitstring': self.bs, 's': s, 'Dtype': self.bs.Dtype, 'WITH_BA': self.with_ba}

    def with_ba(self, thunk):
        self.bs.options.bytealigned = True
        try:
            return thunk()
        finally:
            self.bs.options.bytealigned = False

    def root_src(self, root):
        if root['how'] == 'file':
            data = root['bits'] + '1' * (32 - len(root['bits']))
            return ["import tempfile, os", "F = os.path.join(tempfile.mkdtemp(), 'f.bin')", f"open(F, 'wb').write({int(data, 2).to_bytes(4, 'big')!r})",
                    f"s = bitstring.{root['cls']}(filename=F, length={len(root['bits'])})", f"s.pos = {root['pos']}"]
        if root['how'] == 'kw':
            return [f"s = bitstring.{root['cls']}(bin={root['bits']!r}, pos={root['pos']})"]
        return [f"s = bitstring.{root['cls']}(bin={root['bits']!r})", f"s.pos = {root['pos']}"]

    def observe(self, world):
        s = world['s']
        return (s.bin, s.pos)

    def fingerprint(self, world):
        s = world['s']
        try:
            return (type(s).__name__, s._bitstore.immutable)
        except AttributeError:
            return type(s).__name__

    def events(self, st, depth, menu):
        return menu_events(st, menu, self.cls_of_menu)

    def model(self, st, ev):
        return model_step(st, ev, self.bs)

    def snippet(self, root, hist, ev, accept):
        lines = ["import bitstring", "from bitstring import Dtype", CANON_SRC] + ([BA_SRC] if any('WITH_BA(' in x.src for x in list(hist) + [ev]) else []) + self.root_src(root)
        for h in hist:
            lines += ["try:", f"    {h.src}", "except Exception:", "    pass"]
        lines += ["try:", f"    r = ('ok', canon({ev.src}))" if _is_expr(ev.src) else f"    {ev.src}; r = ('ok', None)",
                  "except Exception as e:", "    r = ('exc', type(e).__name__)"]
        if accept is None:
            # the event did not return within the watchdog's CPU budget: replay it under an alarm - if it returns, the replay passes
            lines.insert(0, "import signal; signal.alarm(120)")
            lines.append("signal.alarm(0)")
        else:
            lines.append(f"accept = {[(list(p) if p[0] == 'ok' else [p[0], list(p[1]) if p[1] else None], list(n)) for p, n in accept]!r}")
            lines.append("def m(p, r): return (p[0] == r[0] == 'ok' and canon(p[1]) == r[1]) or (p[0] == r[0] == 'exc' and (p[1] is None or r[1] in p[1]))")
            lines.append("assert any(m(p, r) and (s.bin, s.pos) == tuple(n) for p, n in accept), (r, s.bin, s.pos)")
        return '\n'.join(lines)


CANON_SRC = '''def canon(v):
    if isinstance(v, bitstring.Bits): return ('bits', v.bin, getattr(v, 'pos', 0))
    if isinstance(v, float): return ('f', 'nan' if v != v else v.hex())
    if isinstance(v, (bytes, bytearray)): return ('bytes', bytes(v).hex())
    if isinstance(v, (list, tuple)): return type(v)(canon(x) for x in v) if not (len(v) == 3 and v[0] == 'bits') and not (len(v) == 2 and v[0] in ('f', 'bytes')) else tuple(v)
    return v'''


def _is_expr(src):
    try:
        compile(src, '<e>', 'eval')
        return True
    except SyntaxError:
        return False


TOKENS = ['u1', 'u3', 'i2', 'hex4', 'oct3', 'bin2', 'bool', 'bits2', 'bytes1', 'pad2', 'float16', 'bfloat', 'p4binary8', 'e2m1mxfp',
          'ue', 'se', 'uie', 'sie', 'uint:5', 'hex:8']
LENLESS = ['bin', 'hex', 'oct', 'bits', 'bytes', 'u', 'i', 'pad']
LISTS = [("'u2, bin1'", ['u2', 'bin1'], {}), ("[1, 'u2']", [1, 'u2'], {}), ("[-1]", [-1], {}), ("[0]", [0], {}), ("'bits, u2'", ['bits', 'u2'], {}),
         ("'ue, se'", ['ue', 'se'], {}), ("'pad1, bool'", ['pad1', 'bool'], {}), ("'u:n', n=2", ['u2'], {}), ("'u:n', n=9", ['u9'], {}),
         ("'hex, u3'", ['hex', 'u3'], {}), ("'bits, ue'", ['bits', 'ue'], {}), ("['bin', 'bool']", ['bin', 'bool'], {}), ("'2*u1, bits'", ['u1', 'u1', 'bits'], {}),
         ("'bool, uie, bytes'", ['bool', 'uie', 'bytes'], {}), ("[3, -2]", [3, -2], {}), ("'bits:1, sie'", ['bits1', 'sie'], {}),
         # one-shot iterables and Dtype objects as the format
         ("(x for x in ['u1', 'bin2'])", ['u1', 'bin2'], {}), ("iter([1, 2])", [1, 2], {}), ("[Dtype('u2'), Dtype('bool')]", ['u2', 'bool'], {}),
         ("(Dtype(t) for t in ('u1', 'u2'))", ['u1', 'u2'], {}), ("map(str, ['u2', 'bin1'])", ['u2', 'bin1'], {}), ("('u1', 'u1')", ['u1', 'u1'], {})]


def menu_events(st, menu, _cls):
    # the class is not part of the model state; mutator events are generated for both classes and filtered in System.events
    raise NotImplementedError


def build_menu(d, p, cls, menu):
    L = len(d)
    rem = L - p
    full = menu == 'full'
    ev = []
    A = ev.append
    ints = list(dict.fromkeys([1, 3, rem, rem + 1, 0, -1])) if full else [1, rem + 1]
    for n in ints:
        dev = n in (0, -1, rem + 1)
        A(Event('read', ('int', n), f"s.read({n})", dev))
        if full:
            A(Event('peek', ('int', n), f"s.peek({n})", dev))
    for t in (TOKENS if full else ['u3', 'bool', 'ue', 'hex4', 'sie']):
        A(Event('read', ('tok', t), f"s.read({t!r})", t in ('bool', 'p4binary8')))
        if full or t in ('u3', 'ue'):
            A(Event('peek', ('tok', t), f"s.peek({t!r})", True))
    for t in (LENLESS if full else ['hex', 'bits']):
        A(Event('read', ('tok', t), f"s.read({t!r})", True))
        if full:
            A(Event('peek', ('tok', t), f"s.peek({t!r})", True))
    if full:
        A(Event('read', ('tok', 'u3'), "s.read(Dtype('u3'))", False))
        A(Event('read', ('tok', 'ue'), "s.read(Dtype('ue'))", False))
        A(Event('read', ('tok', 'bytes1'), "s.read(Dtype('bytes', 1))", False))
    for src, items, kw in (LISTS if full else LISTS[:3] + LISTS[5:6] + LISTS[16:17]):
        A(Event('readlist', tuple(items), f"s.readlist({src})", src in ('[-1]', '[0]', '[3, -2]')))
        if full or src == "'u2, bin1'":
            A(Event('peeklist', tuple(items), f"s.peeklist({src})", True))
    for v in (dict.fromkeys([-1, 0, 1, 8, L, L + 1, L // 2]) if full else [0, L, L + 1]):
        A(Event('setpos', (v, 1), f"s.pos = {v}", not 0 < v < L))
        if full:
            A(Event('setpos', (v, 1), f"s.bitpos = {v}", not 0 < v < L))
    for v in ((0, 1, 2, -1) if full else (1,)):
        A(Event('setpos', (v, 8), f"s.bytepos = {v}", v != 0))
    A(Event('bytepos', (), "s.bytepos", True))
    A(Event('bytealign', (), "s.bytealign()", False))
    pats = [('1', "'0b1'"), ('01', "'0b01'"), ('', "''"), ('10110010', "'0xb2'")] if full else [('1', "'0b1'"), ('01', "'0b01'")]
    for pat, psrc in pats:
        for (a, b) in ([(None, None), (1, None), (p, None), (None, p), (L + 1, None)] if full else [(None, None), (p, None)]):
            for ba in ((None, True) if full else (None,)):
                dev = pat == '' or (a, b) != (None, None) or ba is not None
                A(Event('find', (pat, a, b, ba), f"s.find({psrc}, {a}, {b}, {ba})", dev))
                A(Event('rfind', (pat, a, b, ba), f"s.rfind({psrc}, {a}, {b}, {ba})", dev))
        for ba in ((None, True) if full else (None,)):
            A(Event('readto', (pat, ba), f"s.readto({psrc}, {ba})", pat == '' or ba is not None))
    # the module-wide default: with options.bytealigned set, a readto without an explicit argument is byte-aligned
    for pat, psrc in pats[:2]:
        A(Event('readto', (pat, True, 'option'), f"WITH_BA(lambda: s.readto({psrc}))", True))
        if full:
            A(Event('readto', (pat, False, 'option-explicit-false'), f"WITH_BA(lambda: s.readto({psrc}, False))", True))
            A(Event('find', (pat, None, None, True, 'option'), f"WITH_BA(lambda: s.find({psrc}))", True))
    if full:
        A(Event('readto', (None, None), "s.readto(3)", True))
    # new stream objects start at 0; pos never affects ==/hash or non-stream results
    news = [("s.copy()", 'same'), ("s[:]", 'same'), ("s[1:3]", 'slice13'), ("s + '0b1'", 'plus1'), ("s * 2", 'times2'), ("s.__copy__()", 'same')]
    if L:
        news += [("~s", 'inv'), ("s << 1", 'shl1'), ("s & s", 'same'), ("s | s", 'same'), ("s ^ s", 'zeros')]
    # an EMPTY other operand: the result is still a new stream at 0 and the receiver keeps its position
    news += [("s + ''", 'same'), ("s + bitstring.Bits()", 'same'), ("'' + s", 'same'), ("s * 1", 'same'), ("s + []", 'same'), ("bitstring.Bits() + s", 'same-bits')]
    news += [("list(s.cut(2))", 'cut2'), ("list(s.split('0b1'))", 'split1'), ("s.unpack('bits')", 'unpackbits'), ("'0b1' + s", 'rplus1')]
    for src, tag in (news if full else news[:3]):
        A(Event('newstream', (tag,), src, False))
    A(Event('eq', ('Bits',), "s == bitstring.Bits(bin=s.bin)", False))
    if full:
        A(Event('eq', ('twin',), "s == type(s)(bin=s.bin, pos=0) and not (s != type(s)(bin=s.bin, pos=len(s)))", False))
        A(Event('eq', ('hash',), "(hash(s) == hash(bitstring.Bits(bin=s.bin))) if type(s).__hash__ is not None else True", False))
        A(Event('eq', ('len',), "(len(s), s.bin == s.bin, s.count(1)) == (len(s.bin), True, s.bin.count('1'))", False))
    if cls == 'BitStream':
        ops = [('1', "'0b1'"), ('01', "'0b01'"), ('', "''"), ('SELF', 's')] if full else [('01', "'0b01'")]
        for b, src in ops:
            dev = b in ('', 'SELF')
            A(Event('append', (b,), f"s.append({src})", dev))
            A(Event('iadd', (b,), f"s.__iadd__({src}) is s", dev))
            A(Event('prepend', (b,), f"s.prepend({src})", dev))
            for q_ in (dict.fromkeys([None, 0, 1, L, -1, L + 1]) if full else [None, 1]):
                arg = '' if q_ is None else f", {q_}"
                A(Event('insert', (b, q_), f"s.insert({src}{arg})", dev or q_ not in (None, 1)))
                A(Event('overwrite', (b, q_), f"s.overwrite({src}{arg})", dev or q_ not in (None, 1)))
        A(Event('clear', (), "s.clear()", False))
        for i in ((0, -1, L) if full else (0,)):
            A(Event('delitem', (i,), f"del s[{i}]", i != 0))
        for (a, b, c) in ([(1, 3, None), (2, 2, None), (None, None, 2), (None, None, None)] if full else [(1, 3, None), (2, 2, None)]):
            A(Event('delslice', (a, b, c), f"del s[{M_sl(a, b, c)}]", (a, b) == (2, 2)))
        for (a, b, c, kind, v, vsrc) in ([(0, 1, None, 'bits', '11', "'0b11'"), (0, 1, None, 'bits', '1', "'0b1'"), (None, None, 2, 'int', 1, '1'),
                                          (0, 2, None, 'int', 1, '1'), (1, 1, None, 'bits', '0', "'0b0'"), (0, 1, None, 'bits', '', "''")] if full else
                                         [(0, 1, None, 'bits', '11', "'0b11'"), (0, 1, None, 'bits', '1', "'0b1'")]):
            A(Event('setslice', (a, b, c, kind, v), f"s[{M_sl(a, b, c)}] = {vsrc}", False))
        for i, kind, v, vsrc in ([(0, 'int', 1, '1'), (0, 'bits', '10', "'0b10'"), (-1, 'bits', '1', "'0b1'")] if full else [(0, 'int', 1, '1')]):
            A(Event('setitem', (i, kind, v), f"s[{i}] = {vsrc}", False))
        for o, osrc, n_, nsrc in ([('1', "'0b1'", '00', "'0b00'"), ('1', "'0b1'", '0', "'0b0'"), ('01', "'0b01'", '', "''"), ('111', "'0b111'", '0', "'0b0'")] if full else
                                  [('1', "'0b1'", '00', "'0b00'"), ('1', "'0b1'", '0', "'0b0'")]):
            A(Event('replace', (o, n_, None, None, None), f"s.replace({osrc}, {nsrc})", False))
        if full:
            A(Event('replace', ('1', '00', 1, None, 1), "s.replace('0b1', '0b00', 1, None, 1)", True))
        unl = [('imul2', "s.__imul__(2) is s"), ('imul0', "s.__imul__(0) is s"), ('ilshift1', "s.__ilshift__(1) is s"), ('reverse', "s.reverse()"),
               ('rol1', "s.rol(1)"), ('set', "s.set(1, 0)"), ('invert', "s.invert()"), ('byteswap', "s.byteswap()"), ('ixor', "s.__ixor__(s) is s"),
               ('ilshiftL', f"s.__ilshift__({L}) is s"), ('ilshiftbig', f"s.__ilshift__({L + 5}) is s"), ('irshift1', "s.__irshift__(1) is s"), ('irshiftL', f"s.__irshift__({L}) is s"),
               ('ror2', "s.ror(2)"), ('iand', "s.__iand__(s) is s"), ('setall', "s.set(0)")]
        for tag, src in (unl if full else unl[:2]):
            A(Event('unlisted', (tag,), src, True))
        props = [("s.uint = 1", 'uint', 1), ("s.u4 = 3", 'u4', 3), ("s.hex = 'f'", 'hex', 'f'), ("s.bin = '01'", 'bin', '01'), ("s.bytes = b'a'", 'bytes', 'a'),
                 ("s.bits = '0b1'", 'bits', '1'), ("s.bool = True", 'bool', True), ("s.ue = 3", 'ue', 3), ("s.float16 = 0.5", 'float16', 0.5), ("s.int = -1", 'int', -1)]
        for src, name, v in (props if full else props[:2]):
            A(Event('propset', (name, v), src, True))
        # the same through alias names (their setters are installed separately)
        aliases = [("s.h = 'f'", 'hex', 'f'), ("s.b = '01'", 'bin', '01'), ("s.o = '7'", 'oct', '7'), ("s.u = 1", 'uint', 1), ("s.i = -1", 'int', -1), ("s.h = 'abc'", 'hex', 'abc')]
        for src, name, v in (aliases if full else aliases[:1]):
            A(Event('propset', (name, v, 'alias'), src, True))
    return ev


def M_sl(a, b, c):
    f = lambda x: '' if x is None else str(x)
    return f"{f(a)}:{f(b)}" + ('' if c is None else f":{c}")


def opnd(d, b):
    return d if b == 'SELF' else b


def model_step(st, ev, bs):
    d, p = st
    L = len(d)
    op, a = ev.op, ev.args
    if op in ('read', 'peek'):
        pk = op == 'peek'
        if a[0] == 'int':
            return S.read_int(d, p, a[1], pk)
        name, n = S.parse_token(a[1])
        if name in ('p4binary', 'e2m1mxfp'):
            nb = 8 if name == 'p4binary' else 4
            if L - p < nb:
                return S.exc(S.RE, d, p)
            v = getattr(bs.Bits(bin=d[p:p + nb]), name)
            return S.ok(S.fl(v), d, p if pk else p + nb)
        return S.read_token(d, p, a[1], pk)
    if op in ('readlist', 'peeklist'):
        return S.readlist(d, p, list(a), op == 'peeklist')
    if op == 'setpos':
        return S.setpos(d, p, a[0], a[1])
    if op == 'bytepos':
        return S.bytepos_get(d, p)
    if op == 'bytealign':
        return S.bytealign(d, p)
    if op in ('find', 'rfind'):
        return S.find(d, p, a[0], a[1], a[2], bool(a[3]), op == 'rfind')
    if op == 'readto':
        return S.readto(d, p, a[0], bool(a[1]))
    if op == 'newstream':
        r = S.ok(newstream_value(d, a[0]), d, p)
        if ev.src == 's.copy()':
            # UNSPECIFIED: copy() of an immutable stream may return the object itself (not a *new* stream object),
            # which then naturally still has its pos.
            r = r + S.ok(('bits', d, p), d, p)
        return r
    if op == 'eq':
        return S.ok(True, d, p)
    # ---- BitStream mutators: content from models.mut, pos by the C06 statement
    if op in ('append', 'iadd'):
        b = opnd(d, a[0])
        r = S.ok(True if op == 'iadd' else None, d + b, len(d + b))
        return r
    if op == 'prepend':
        return S.ok(None, opnd(d, a[0]) + d, 0)
    if op in ('insert', 'overwrite'):
        b = opnd(d, a[0])
        q = p if a[1] is None else a[1]
        alts = (M.insert if op == 'insert' else M.overwrite)(d, b, q)
        qn = q + L if q < 0 else q
        if b == '':
            # UNSPECIFIED: inserting/overwriting nothing - pos unchanged or the documented position
            return S.with_pos(alts, d, p, lambda nb: [p] + ([qn] if 0 <= qn <= len(nb) and qn != p else []))
        return S.with_pos(alts, d, p, lambda nb: [qn + len(b)])
    if op == 'clear':
        return S.ok(None, '', 0)
    if op == 'delitem':
        return S.with_pos(M.delitem(d, a[0]), d, p, S.rule_len_change(d, p))
    if op == 'delslice':
        return S.with_pos(M.delslice(d, a[0], a[1], a[2]), d, p, S.rule_len_change(d, p))
    if op == 'setslice':
        return S.with_pos(M.setslice(d, a[0], a[1], a[2], (a[3], a[4])), d, p, S.rule_len_change(d, p))
    if op == 'setitem':
        return S.with_pos(M.setitem_int(d, a[0], (a[1], a[2])), d, p, S.rule_len_change(d, p))
    if op == 'replace':
        return S.with_pos(M.replace(d, a[0], a[1], a[2], a[3], a[4], False), d, p, S.rule_len_change(d, p))
    if op == 'unlisted':
        tag = a[0]
        alts = {'imul2': lambda: _self(M.imul(d, 2)), 'imul0': lambda: _self(M.imul(d, 0)), 'ilshift1': lambda: _self(M.ishift(d, 1, True)),
                'reverse': lambda: M.reverse(d, None, None), 'rol1': lambda: M.rotate(d, 1, None, None, True),
                'set': lambda: M.set_(d, 1, ('int', 0)), 'invert': lambda: M.invert(d, ('none',)),
                'byteswap': lambda: M.byteswap(d, None, None, None, True), 'ixor': lambda: _self(M.ibool(d, d, '^')),
                'ilshiftL': lambda: _self(M.ishift(d, len(d), True)), 'ilshiftbig': lambda: _self(M.ishift(d, len(d) + 5, True)),
                'irshift1': lambda: _self(M.ishift(d, 1, False)), 'irshiftL': lambda: _self(M.ishift(d, len(d), False)),
                'ror2': lambda: M.rotate(d, 2, None, None, False), 'iand': lambda: _self(M.ibool(d, d, '&')), 'setall': lambda: M.set_(d, 0, ('none', None))}[tag]()
        return S.with_pos(alts, d, p, S.rule_keeps_pos(d, p))
    if op == 'propset':
        return S.with_pos(propset_model(d, a[0], a[1]), d, p, S.rule_unlisted(d, p))
    raise KeyError(op)


def _self(alts):
    return [((o[0], True if o[1] == 'self' else o[1]) if o[0] == 'ok' else o, b) for o, b in alts]


def propset_model(d, name, v):
    """Content after `s.<name> = v` (C02/C15 judge the values; here only what is needed to follow pos)."""
    L = len(d)
    import struct
    if name in ('uint', 'int'):
        if L == 0:
            return M.EXC(d)
        lo, hi = (0, (1 << L) - 1) if name == 'uint' else (-(1 << (L - 1)), (1 << (L - 1)) - 1)
        if not lo <= v <= hi:
            return M.EXC(d)
        return M.OK(format(v & ((1 << L) - 1), f'0{L}b'))
    if name == 'u4':
        return M.OK(format(v, '04b'))
    if name == 'hex':
        return M.OK(format(int(v, 16), f'0{4 * len(v)}b'))
    if name == 'bin':
        return M.OK(v)
    if name == 'oct':
        return M.OK(format(int(v, 8), f'0{3 * len(v)}b'))
    if name == 'bytes':
        return M.OK(''.join(format(ord(c), '08b') for c in v))
    if name == 'bits':
        return M.OK(v)
    if name == 'bool':
        return M.OK('1' if v else '0')
    if name == 'ue':
        return M.OK(golomb.enc_ue(v))
    if name == 'float16':
        return M.OK(format(int.from_bytes(struct.pack('>e', v), 'big'), '016b'))
    raise KeyError(name)


def newstream_value(d, tag):
    L = len(d)
    B = lambda s: ('bits', s, 0)
    inv = ''.join('1' if c == '0' else '0' for c in d)
    if tag == 'same':
        return B(d)
    if tag == 'same-bits':
        return ('bits', d, None) if False else B(d)
    if tag == 'slice13':
        return B(d[1:3])
    if tag == 'plus1':
        return B(d + '1')
    if tag == 'rplus1':
        return B('1' + d)
    if tag == 'times2':
        return B(d * 2)
    if tag == 'inv':
        return B(inv)
    if tag == 'shl1':
        return B(d[1:] + '0')
    if tag == 'zeros':
        return B('0' * L)
    if tag == 'cut2':
        return [B(d[i:i + 2]) for i in range(0, L, 2)]
    if tag == 'split1':
        from ..models import search
        return [B(x) for x in search.split(d, '1', (0, L), False, None)[1]]
    if tag == 'unpackbits':
        return [B(d)]
    raise KeyError(tag)


class Sys2(System):
    def __init__(self, bs, cls):
        super().__init__(bs)
        self.cls = cls
        self._cache = {}

    def events(self, st, depth, menu):
        k = (st, menu)
        r = self._cache.get(k)
        if r is None:
            r = self._cache[k] = build_menu(st[0], st[1], self.cls, menu)
        return r


def run_shard(shard, acc):
    from .. import routes
    ctx = routes.Ctx()
    try:
        _run_shard(shard, acc, ctx)
    finally:
        ctx.close()


def _run_shard(shard, acc, ctx):
    bs = core.import_bitstring()
    sysm = Sys2(bs, shard['cls'])
    sysm.ctx = ctx
    q = acc.tier == 'quick'
    small = len(shard['bits']) <= (4 if q else 5)
    if q:
        plan = [('full', None), ('full', None) if len(shard['bits']) <= 3 else ('reduced', None), ('reduced', 1)]
        if not small:
            plan = [('full', None), ('reduced', 1)]
    else:
        plan = [('full', None), ('full', None), ('reduced', None), ('reduced', 1), ('reduced', 1)]
        if len(shard['bits']) == 5:
            plan = [('full', None), ('full', None), ('reduced', 1), ('reduced', 1)]      # 192 of the 320 roots per class: depth 4 keeps the tier under ~25 min
        if not small:
            plan = [('full', None), ('reduced', None), ('reduced', 1)]
    try:
        bfs.explore(sysm, acc, shard, plan, canon_ret=canon, state_cap=lambda st: len(st[0]) <= (CAP if small else 40), timeout=10.0)
    except Exception as e:
        if shard['pos'] < 0 and type(e).__name__ in ('CreationError', 'ValueError'):
            # UNSPECIFIED root: a negative constructor pos may be refused
            acc.step('ctor', 1, rej=1)
            return
        raise
