"""C16 - bit-wise operators and shifts are per-bit boolean functions with fixed length (product explorer).

state = (left class, left bits, right class/form, right bits)   event = & | ^ (plain, reflected, in-place) ~ << >> <<= >>=
oracle = Python int arithmetic on int(bits, 2) masked to len; algebraic laws asserted as a cross-check of the oracle.
"""
from __future__ import annotations

from .. import core, families, routes
from ..util import CLASSES, STREAMS, MUTABLE, obs, cb, vkind, mk
from ..util import snippet as _snippet
from .c01 import promotable_forms, CB_SRC, build

PROPERTY = 'C16'
_LSB0 = False


def snippet(pre, expr, exp, conv=None):
    return _snippet(pre, expr, exp, conv=conv, options=(core.get_options()))

VACUITY = dict(need_ok=['and', 'or', 'xor', 'invert', 'lshift', 'rshift', 'iand', 'ior', 'ixor', 'ilshift', 'irshift', 'rand'],
               need_rej=['and', 'or', 'xor', 'invert', 'lshift', 'rshift', 'ilshift', 'irshift', 'iand'], min_outcomes=100)

OPS = {'and': ('&', lambda a, b: a & b), 'or': ('|', lambda a, b: a | b), 'xor': ('^', lambda a, b: a ^ b)}


def describe(tier):
    q = tier == 'quick'
    return dict(bounds=dict(options_lsb0='False for everything; True for all unary/shift events and all pairs of length <= 4', pairs='all ordered pairs of contents of length <= %d' % (7 if q else 10),
                            edge_lengths=[63, 64, 65, 127, 128, 129] + ([] if q else [255, 256, 257, 1023, 1024, 1025, 2000, 2001]),
                            left_classes=list(CLASSES), right='4 classes + promotable forms (str, list, tuple, generator, bitarray, bytes...)',
                            shifts='n in [-2, L+2] U {64, 10**9}', self_operand=True, views='operands built through %d view / derived routes (length-limited files, offsets, BytesIO, slices, little-endian bitarray) for all pairs of contents of length <= %d' % (len(VIEW_ROUTES), 4 if q else 6)),
                rule='each (pair, operator, class combination) executed once; non-trivial = model outcome is a value (equal lengths, '
                     'non-empty where required) rather than the documented rejection',
                assumptions=['Python int arithmetic is the definition of the per-bit boolean functions'])


def shards(tier, seed):
    q = tier == 'quick'
    n = 7 if q else 10
    conts = list(families.all_bits(n))
    out = [dict(kind='pairs', left=part, n=n) for part in families.chunk(conts, 48)]
    Ls = [63, 64, 65, 127, 128, 129] + ([] if q else [255, 256, 257, 1023, 1024, 1025, 2000, 2001])
    for L in Ls:
        out.append(dict(kind='edge', L=L, seed=seed))
    vconts = list(families.all_bits(4 if q else 6)) + ['10110010', '1011001000000001', '101100100']
    for part in families.chunk(vconts, 12):
        out.append(dict(kind='views', left=part, conts=vconts))
    return out


def imodel(op, a, b):
    if len(a) != len(b):
        return ('exc', 'ValueError')
    if not a:
        return ('ok', '')
    v = OPS[op][1](int(a, 2), int(b, 2)) & ((1 << len(a)) - 1)
    return ('ok', format(v, f'0{len(a)}b'))


def shift_model(d, n, left):
    L = len(d)
    if n < 0 or L == 0:
        return ('exc', 'ValueError')
    if n >= L:          # statement: n >= len gives all zeros (also avoids building a 10**9-bit int)
        return ('ok', '0' * L)
    v = int(d, 2)
    v = (v << n) & ((1 << L) - 1) if left else (v >> n)
    return ('ok', format(v, f'0{L}b'))


def invert_model(d):
    if not d:
        return ('exc', 'Error')
    return ('ok', format(~int(d, 2) & ((1 << len(d)) - 1), f'0{len(d)}b'))


def selftest():
    assert imodel('and', '1100', '1010') == ('ok', '1000') and imodel('xor', '1', '11')[0] == 'exc'
    assert shift_model('1011', 1, True) == ('ok', '0110') and shift_model('1011', 9, False) == ('ok', '0000')
    assert invert_model('10') == ('ok', '01')


def wrap(cls, m):
    """Model bits -> expected canonical bitstring observation."""
    if m[0] == 'exc':
        return m
    return ('ok', (cls, m[1], 0 if cls in STREAMS else None))


def exc_match(exp, got):
    if exp[0] == 'exc' and got[0] == 'exc':
        if exp[1] == 'Error':
            return got[1] in ('Error', 'ByteAlignError', 'ReadError')
        if exp[1] == 'ValueError':
            return got[1] in ('ValueError', 'CreationError')
    return exp == got


def run_shard(shard, acc):
    bs = core.import_bitstring()
    with core.watchdog(1500):
        if shard['kind'] == 'pairs':
            small = list(families.all_bits(shard['n']))
            for a in shard['left']:
                unary(bs, acc, a, full=True)
                for b in small:
                    binary(bs, acc, a, b, full=(len(a) <= 5 and len(b) <= 5))
            # the same operators under options.lsb0: whole-value operations, shifts keep their direction relative to the
            # most significant end, so the model is unchanged (C12 statement); snippets set the option.
            core.set_options(lsb0=True)
            try:
                for a in shard['left']:
                    unary(bs, acc, a, full=True, lsb0=True)
                    if len(a) <= 4:
                        for b in small:
                            if len(b) <= 4:
                                binary(bs, acc, a, b, full=False, lsb0=True)
            finally:
                core.set_options()
        elif shard['kind'] == 'views':
            ctx = routes.Ctx()
            try:
                views(bs, acc, ctx, shard['left'], shard['conts'])
            finally:
                ctx.close()
        else:
            L = shard['L']
            pats = families.edge(L, shard['seed'], full=False)
            for a in pats:
                unary(bs, acc, a, full=False)
                for b in pats[:4] + [pats[0][:-1], pats[1] + '1']:
                    binary(bs, acc, a, b, full=False)


def unary(bs, acc, d, full, lsb0=False):
    L = len(d)
    shifts = list(dict.fromkeys(list(range(-2, L + 3)) + [64, 10 ** 9])) if full else [-1, 0, 1, 7, 8, 63, 64, 65, L - 1, L, L + 1, 10 ** 9]
    for cls in CLASSES:
        pos = L // 2 if cls in STREAMS else 0
        s = build(bs, cls, d, pos)
        acc.state((cls, d, lsb0))
        pre = [f"s = {mk(cls, d, pos)}"]
        exp = wrap(cls, invert_model(d))
        got = obs(lambda: ~s, cb)
        ok_ = int(exp[0] == 'ok')
        acc.step('invert', 1, nontrivial=ok_, ok=ok_, rej=1 - ok_)
        if not exc_match(exp, got):
            acc.violation('invert', vkind(exp, got), dict(cls=cls, data=d), snippet(pre, "~s", exp, conv=CB_SRC), exp, got)
        if ok_ and got[0] == 'ok':
            # ~~s == s, cross-check of the oracle itself
            r2 = obs(lambda: ~~s, cb)
            if r2 != ('ok', (cls, d, 0 if cls in STREAMS else None)):
                acc.violation('invert', 'value', dict(cls=cls, data=d, law='double'), snippet(pre, "~~s", ('ok', (cls, d, 0 if cls in STREAMS else None)), conv=CB_SRC), d, r2)
        for n in shifts:
            for op, left, th, src in (('lshift', True, lambda: s << n, f"s << {n}"), ('rshift', False, lambda: s >> n, f"s >> {n}")):
                exp = wrap(cls, shift_model(d, n, left))
                got = obs(th, cb)
                if cls in MUTABLE and exp[0] == 'ok' and n in (0, 1, L):
                    # a non-in-place operator on a mutable operand hands back a NEW object: changing the result must not change the operand
                    try:
                        r = th()
                        same_obj = r is s
                        r.append('0b1')
                        r.invert()
                    except Exception:  # noqa: BLE001 - the value comparison below reports it
                        same_obj = False
                    if same_obj or s.bin != d:
                        acc.violation(op, 'frame', dict(cls=cls, data=d, n=n, group='result-aliases-operand'),
                                      '\n'.join(["import bitstring", f"bitstring.options.lsb0 = {lsb0}", f"s = {mk(cls, d, pos)}", f"r = {src}", "assert r is not s", "r.append('0b1'); r.invert()", f"assert s.bin == {d!r}, s.bin"]),
                                      d, s.bin)
                        s = build(bs, cls, d, pos)
                ok_ = int(exp[0] == 'ok')
                acc.step(op, 1, nontrivial=ok_, ok=ok_, rej=1 - ok_)
                if not exc_match(exp, got):
                    acc.violation(op, vkind(exp, got), dict(cls=cls, data=d, n=n), snippet(pre, src, exp, conv=CB_SRC), exp, got)
            if cls in MUTABLE:
                for op, left in (('ilshift', True), ('irshift', False)):
                    m = build(bs, cls, d, pos)
                    exp = shift_model(d, n, left)

                    def do():
                        nonlocal m
                        m0 = m
                        if left:
                            m <<= n
                        else:
                            m >>= n
                        return (m is m0, m.bin)
                    got = obs(do)
                    e2 = ('ok', (True, exp[1])) if exp[0] == 'ok' else exp
                    ok_ = int(exp[0] == 'ok')
                    acc.step(op, 1, nontrivial=ok_, ok=ok_, rej=1 - ok_)
                    sym = '<<=' if left else '>>='
                    if not exc_match(e2, got) or (got[0] == 'exc' and m.bin != d):
                        acc.violation(op, vkind(e2, got) if not exc_match(e2, got) else 'frame', dict(cls=cls, data=d, n=n),
                                      '\n'.join(["import bitstring", f"bitstring.options.lsb0 = {lsb0}", f"s = {mk(cls, d, pos)}", "t = s", "try:", f"    s {sym} {n}",
                                                 "except ValueError:", f"    assert {exp[0]!r} == 'exc' and t.bin == {d!r}, t.bin", "else:",
                                                 f"    assert {exp[0]!r} == 'ok' and s is t and s.bin == {exp[1]!r}, s.bin"]), e2, got)
        if s.bin != d or getattr(s, 'pos', 0) != pos:
            acc.violation('frame', 'frame', dict(cls=cls, data=d), "# operand changed by ~/<</>>\nassert False", d, s.bin)
    acc.outcome(('unary', d))
    acc.sample(dict(bits=d[:64], events='~s, s << n, s >> n, s <<= n, s >>= n for n in ' + str(shifts[:6]) + '...'))


def binary(bs, acc, a, b, full, lsb0=False):
    acc.state(('pair', a, b, lsb0))
    for op, (sym, _) in OPS.items():
        m = imodel(op, a, b)
        ok_ = int(m[0] == 'ok')
        acc.outcome((op, m))
        for lcls in CLASSES:
            lpos = len(a) if lcls in STREAMS else 0
            exp = wrap(lcls, m)
            for rcls in (CLASSES if full else (CLASSES[(len(a) + len(b)) % 4],)):
                s = build(bs, lcls, a, lpos)
                t = build(bs, rcls, b, len(b) // 2 if rcls in STREAMS else 0)
                got = obs(lambda: eval_op(sym, s, t), cb)
                acc.step(op, 1, nontrivial=ok_, ok=ok_, rej=1 - ok_)
                if not exc_match(exp, got):
                    acc.violation(op, vkind(exp, got), dict(lcls=lcls, left=a, rcls=rcls, right=b),
                                  snippet([f"s = {mk(lcls, a, lpos)}", f"t = {mk(rcls, b)}"], f"s {sym} t", exp, conv=CB_SRC), exp, got)
                if s.bin != a or t.bin != b or getattr(s, 'pos', 0) != lpos:
                    acc.violation(op, 'frame', dict(lcls=lcls, left=a, rcls=rcls, right=b),
                                  '\n'.join(["import bitstring", f"s = {mk(lcls, a)}", f"t = {mk(rcls, b)}", "try:", f"    s {sym} t",
                                             "except ValueError:", "    pass", f"assert (s.bin, t.bin) == ({a!r}, {b!r}), (s.bin, t.bin)"]),
                                  (a, b), (s.bin, t.bin))
            # in-place forms
            if lcls in MUTABLE:
                rcls = CLASSES[(len(a) * 3 + len(b)) % 4]
                s = build(bs, lcls, a, lpos)
                t = build(bs, rcls, b)

                def do():
                    nonlocal s
                    s0 = s
                    if sym == '&':
                        s &= t
                    elif sym == '|':
                        s |= t
                    else:
                        s ^= t
                    return (s is s0, s.bin)
                got = obs(do)
                e2 = ('ok', (True, m[1])) if m[0] == 'ok' else m
                acc.step('i' + op, 1, nontrivial=ok_, ok=ok_, rej=1 - ok_)
                bad = not exc_match(e2, got)
                if bad or (got[0] == 'exc' and s.bin != a) or t.bin != b:
                    acc.violation('i' + op, vkind(e2, got) if bad else 'frame', dict(lcls=lcls, left=a, rcls=rcls, right=b),
                                  '\n'.join(["import bitstring", f"bitstring.options.lsb0 = {lsb0}", f"s = {mk(lcls, a)}", f"t = {mk(rcls, b)}", "u = s", "try:", f"    s {sym}= t",
                                             "except ValueError:", f"    assert {m[0]!r} == 'exc' and u.bin == {a!r}", "else:",
                                             f"    assert {m[0]!r} == 'ok' and s is u and s.bin == {m[1]!r}, s.bin", f"assert t.bin == {b!r}"]), e2, got)
        # promotable right operands and reflected forms
        if full or len(b) % 8 == 0:
            for form in promotable_forms(bs, b):
                label, fac, src = form
                lcls = CLASSES[(len(a) + len(label)) % 4]
                s = build(bs, lcls, a)
                exp = wrap(lcls, m)
                got = obs(lambda: eval_op(sym, s, fac()), cb)
                acc.step(op, 1, nontrivial=ok_, ok=ok_, rej=1 - ok_)
                if not exc_match(exp, got):
                    acc.violation(op, vkind(exp, got), dict(lcls=lcls, left=a, form=label, right=b),
                                  snippet([f"s = {mk(lcls, a)}"], f"s {sym} {src}", exp, conv=CB_SRC), exp, got)
                if label in ('str', 'list', 'tuple_int', 'bytes', 'hexstr'):
                    # reflected: x OP s  ->  s.__rOP__(x); commutative so same model with operands swapped
                    mr = imodel(op, b, a)
                    exp = wrap(lcls, mr)
                    got = obs(lambda: eval_op(sym, fac(), s), cb)
                    acc.step('r' + op, 1, nontrivial=ok_, ok=ok_, rej=1 - ok_)
                    if not exc_match(exp, got):
                        acc.violation('r' + op, vkind(exp, got), dict(lcls=lcls, left=a, form=label, right=b),
                                      snippet([f"s = {mk(lcls, a)}"], f"{src} {sym} s", exp, conv=CB_SRC), exp, got)
    # self-operand cases: s OP s never modifies s
    if a == b:
        for lcls in CLASSES:
            for op, (sym, _) in OPS.items():
                spos = len(a) // 2 + (1 if len(a) > 1 else 0) if lcls in STREAMS else 0      # a stream operand positioned mid-way: the result starts at 0, the operand stays where it is
                s = build(bs, lcls, a, spos)
                exp = wrap(lcls, imodel(op, a, a))
                got = obs(lambda: eval_op(sym, s, s), cb)
                acc.step(op, 1, nontrivial=1, ok=1)
                if got[0] == 'ok' and getattr(s, 'pos', 0) != spos:
                    acc.violation(op, 'frame', dict(lcls=lcls, left=a, self_operand=True, group='self-pos'),
                                  '\n'.join(["import bitstring", f"s = {mk(lcls, a, spos)}", f"r = s {sym} s", f"assert s.pos == {spos} and r is not s, (s.pos, r is s)"]), spos, getattr(s, 'pos', 0))
                if not exc_match(exp, got) or s.bin != a:
                    acc.violation(op, 'value' if s.bin == a else 'frame', dict(lcls=lcls, left=a, self_operand=True),
                                  snippet([f"s = {mk(lcls, a)}"], f"s {sym} s", exp, conv=CB_SRC), exp, got)
                if lcls in MUTABLE:
                    got = obs(lambda: inplace_self(sym, s))
                    e2 = ('ok', imodel(op, a, a)[1])
                    acc.step('i' + op, 1, nontrivial=1, ok=1)
                    if got != e2:
                        acc.violation('i' + op, vkind(e2, got), dict(lcls=lcls, left=a, self_operand=True),
                                      '\n'.join(["import bitstring", f"s = {mk(lcls, a)}", f"s {sym}= s", f"assert s.bin == {e2[1]!r}, s.bin"]), e2, got)
        # De Morgan on the implementation, as a cross-check of the oracle
    if len(a) == len(b) and a:
        x, y = bs.Bits(bin=a), bs.Bits(bin=b)
        if (~(x & y)).bin != ((~x) | (~y)).bin or (~(x | y)).bin != ((~x) & (~y)).bin:
            acc.violation('and', 'value', dict(left=a, right=b, law='de morgan'),
                          '\n'.join(["import bitstring", f"x, y = bitstring.Bits(bin={a!r}), bitstring.Bits(bin={b!r})",
                                     "assert ~(x & y) == (~x | ~y) and ~(x | y) == (~x & ~y)"]), None, None)
        acc.step('and', 2, nontrivial=2, ok=2)


VIEW_ROUTES = ('file_len', 'file_off3_len', 'file_handle_len', 'bytes_off3', 'bytesio', 'stepslice', 'from_mutated', 'bitarray_le', 'memoryview_strided_off', 'fromstring')


def views(bs, acc, ctx, lefts, conts):
    """The same operators with an operand that is a window onto a longer source (file, bytes, BytesIO), a derived object or another
    construction route: left operand, right operand, both; ~ and shifts on the view; operands are never modified."""
    P = routes.SNIPPET_PRELUDE
    for a in lefts:
        for lcls in CLASSES:
            for r in VIEW_ROUTES:
                s = routes.build(bs, r, lcls, a, ctx)
                if s is None:
                    continue
                ssrc = routes.source(r, lcls, a)
                acc.state(('view', lcls, a, r))
                exp = wrap(lcls, invert_model(a))
                got = obs(lambda: ~s, cb)
                ok_ = int(exp[0] == 'ok')
                acc.step('invert', 1, nontrivial=ok_, ok=ok_, rej=1 - ok_)
                if not exc_match(exp, got):
                    acc.violation('invert', vkind(exp, got), dict(cls=lcls, data=a, route=r, group=r), snippet([P, f"s = {ssrc}"], "~s", exp, conv=CB_SRC), exp, got)
                for n in dict.fromkeys([0, 1, len(a) - 1, len(a)]):
                    if n < 0:
                        continue
                    for op, left, th, src in (('lshift', True, lambda: s << n, f"s << {n}"), ('rshift', False, lambda: s >> n, f"s >> {n}")):
                        exp = wrap(lcls, shift_model(a, n, left))
                        got = obs(th, cb)
                        ok_ = int(exp[0] == 'ok')
                        acc.step(op, 1, nontrivial=ok_, ok=ok_, rej=1 - ok_)
                        if not exc_match(exp, got):
                            acc.violation(op, vkind(exp, got), dict(cls=lcls, data=a, n=n, route=r, group=r), snippet([P, f"s = {ssrc}"], src, exp, conv=CB_SRC), exp, got)
                for b in conts:
                    rcls = CLASSES[(len(a) + len(b) + len(r)) % 4]
                    t_plain = getattr(bs, rcls)(bin=b)
                    t_view = routes.build(bs, r, rcls, b, ctx)
                    for op, (sym, _) in OPS.items():
                        m = imodel(op, a, b)
                        ok_ = int(m[0] == 'ok')
                        cases = [('view-plain', lcls, s, t_plain, ssrc, mk(rcls, b), m),
                                 ('plain-view', rcls, t_plain, s, mk(rcls, b), ssrc, imodel(op, b, a))]
                        if t_view is not None:
                            cases.append(('view-view', lcls, s, t_view, ssrc, routes.source(r, rcls, b), m))
                        if a == b:
                            cases.append(('view-self', lcls, s, s, ssrc, None, m))
                        for tag, ecls, x, y, xs, ys, mm in cases:
                            exp = wrap(ecls, mm)
                            got = obs(lambda: eval_op(sym, x, y), cb)
                            acc.step(op, 1, nontrivial=ok_, ok=ok_, rej=1 - ok_)
                            if not exc_match(exp, got):
                                pre = [P, f"s = {xs}", f"t = {ys}" if ys else "t = s"]
                                acc.violation(op, vkind(exp, got), dict(lcls=lcls, left=a, rcls=rcls, right=b, route=r, case=tag, group=f'{r}|{tag}'),
                                              snippet(pre, f"s {sym} t", exp, conv=CB_SRC), exp, got)
                    if t_view is not None and t_view.bin != b:
                        acc.violation('frame', 'frame', dict(cls=rcls, data=b, route=r, group=r), "# view operand changed\nassert False", b, t_view.bin)
                # in-place on a mutable object built through the route, with a view operand of the same route
                if lcls in MUTABLE:
                    for b in conts:
                        if len(b) != len(a):
                            continue
                        for op, (sym, _) in OPS.items():
                            x = routes.build(bs, r, lcls, a, ctx)
                            y = routes.build(bs, r, 'Bits', b, ctx)
                            if y is None:
                                y = bs.Bits(bin=b)
                            m = imodel(op, a, b)
                            got = obs(lambda: inplace(sym, x, y))
                            acc.step('i' + op, 1, nontrivial=1, ok=1)
                            if got != ('ok', m[1]) or y.bin != b:
                                acc.violation('i' + op, vkind(m, got), dict(lcls=lcls, left=a, right=b, route=r, group=f'{r}|inplace'),
                                              '\n'.join([P, f"s = {ssrc}", f"t = {routes.source(r, 'Bits', b) if routes.build(bs, r, 'Bits', b, ctx) is not None else mk('Bits', b)}",
                                                         f"s {sym}= t", f"assert s.bin == {m[1]!r} and t.bin == {b!r}, (s.bin, t.bin)"]), m, got)
                if s.bin != a:
                    acc.violation('frame', 'frame', dict(cls=lcls, data=a, route=r, group=r), "# view operand changed\nassert False", a, s.bin)
    acc.sample(dict(event="s OP t, t OP s, ~s, s << n with s a length-limited file-backed / offset / derived object", routes=list(VIEW_ROUTES)))


def inplace(sym, x, y):
    if sym == '&':
        x &= y
    elif sym == '|':
        x |= y
    else:
        x ^= y
    return x.bin


def eval_op(sym, x, y):
    if sym == '&':
        return x & y
    if sym == '|':
        return x | y
    return x ^ y


def inplace_self(sym, s):
    if sym == '&':
        s &= s
    elif sym == '|':
        s |= s
    else:
        s ^= s
    return s.bin
