"""C18 - struct-code formats match struct / array; endian forms relate by byte reversal (product explorer).

oracle = the struct module (with '@' mapped to '=': standard sizes, no padding - the bitstring convention) and the array module.
"""
from __future__ import annotations

import array
import io
import itertools
import math
import struct
import sys

from .. import core, families
from ..util import obs

PROPERTY = 'C18'
VACUITY = dict(need_ok=['pack', 'unpack', 'array', 'array-from-array', 'endian', 'byteswap', 'array-byteswap'], need_rej=['array-from-array'], min_outcomes=200)

INT_CODES = 'bBhHlLiIqQ'
FLOAT_CODES = 'efd'
CODES = INT_CODES + FLOAT_CODES
PREFIXES = '><=@'
SIZE = {c: struct.calcsize('=' + c) for c in CODES}
NATIVE = '<' if sys.byteorder == 'little' else '>'


def describe(tier):
    return dict(bounds=dict(codes=list(CODES), prefixes=list(PREFIXES), counts=['none', 1, 2, 3, 10, 12], two_code_formats='all ordered pairs of codes' + ('' if tier == 'quick' else '; all ordered triples of codes x 7 count patterns (incl. count 0, 10) x value rotations'),
                            int_values='min, min+1, -1, 0, 1, max-1, max per code', float_values='+-0.0, 1.0, -1.5, +-inf, nan, min subnormal, max finite, a value that rounds',
                            array_pairs='every (struct code, array typecode) pair', endian='all 65536 16-bit contents; boundary patterns at 24/32/64/128 bits',
                            byteswap_patterns=[None, 0, 1, 2, [1, 2], 'h', '<2h', 'bh', '10b', '12h', '2hq'], byteswap_windows='every pattern x 10 (start, end) windows x repeat x 2 classes'),
                rule='each (format, value tuple, route) executed once; non-trivial = struct accepts the value tuple / the typecode matches',
                assumptions=["struct with '@' read as '=' (no padding, standard sizes) is the definition, as doc/array.rst states",
                             'only a little-endian host can be run; native expectations derive from sys.byteorder'])


def sfmt(prefix, body):
    return ('=' if prefix == '@' else prefix) + body


def int_vals(c):
    n = SIZE[c] * 8
    if c.isupper():
        lo, hi = 0, (1 << n) - 1
    else:
        lo, hi = -(1 << (n - 1)), (1 << (n - 1)) - 1
    return sorted({lo, lo + 1, -1 if lo < 0 else 2, 0, 1, hi - 1, hi})


def float_vals(c):
    tiny = {'e': 5.960464477539063e-08, 'f': 1.401298464324817e-45, 'd': 5e-324}[c]
    big = {'e': 65504.0, 'f': 3.4028234663852886e+38, 'd': 1.7976931348623157e+308}[c]
    return [0.0, -0.0, 1.0, -1.5, float('inf'), float('-inf'), float('nan'), tiny, big, 0.1]


def vals(c):
    return int_vals(c) if c in INT_CODES else float_vals(c)


def feq(a, b):
    if isinstance(a, float) or isinstance(b, float):
        return (a != a and b != b) or (a == b and math.copysign(1, a) == math.copysign(1, b))
    return a == b and type(a) is type(b)


def shards(tier, seed):
    out = [dict(kind='single', prefix=p) for p in PREFIXES]
    out += [dict(kind='pairs', prefix=p) for p in PREFIXES]
    if tier == 'thorough':
        out += [dict(kind='triples', prefix=p, first=c) for p in PREFIXES for c in CODES]
    out.append(dict(kind='array-array'))
    for lo in range(0, 65536, 8192):
        out.append(dict(kind='endian16', lo=lo, hi=lo + 8192))
    out.append(dict(kind='endian-edge', seed=seed))
    out.append(dict(kind='byteswap', seed=seed))
    return out


def run_shard(shard, acc):
    bs = core.import_bitstring()
    with core.watchdog(1500):
        k = shard['kind']
        if k == 'triples':
            return triples(bs, acc, shard['prefix'], shard['first'])
        if k == 'single':
            single(bs, acc, shard['prefix'])
        elif k == 'pairs':
            pairs(bs, acc, shard['prefix'])
        elif k == 'array-array':
            array_array(bs, acc)
        elif k == 'endian16':
            endian16(bs, acc, shard['lo'], shard['hi'])
        elif k == 'endian-edge':
            endian_edge(bs, acc, shard['seed'])
        else:
            byteswaps(bs, acc, shard['seed'])


def check_pack(bs, acc, fmt, sf, values):
    """pack(fmt, *values).bytes == struct.pack(sf, *values); unpack inverts it."""
    try:
        exp = struct.pack(sf, *values)
        ok = True
    except (struct.error, OverflowError):
        ok = False
    acc.state((fmt, tuple('nan' if isinstance(v, float) and v != v else v for v in values)))
    got = obs(lambda: bs.pack(fmt, *values).bytes)
    acc.step('pack', 1, nontrivial=int(ok), ok=int(ok), rej=int(not ok))
    vsrc = repr(tuple(values)).replace('nan', "float('nan')").replace('inf', "float('inf')").replace("-float('inf')", "float('-inf')")
    if ok:
        if got != ('ok', exp):
            acc.violation('pack', 'value' if got[0] == 'ok' else 'exc', dict(fmt=fmt, values=vsrc[:80], group=fmt[0] + '|' + fmt[-1]),
                          '\n'.join(["import bitstring, struct", f"v = {vsrc}", f"assert bitstring.pack({fmt!r}, *v).bytes == struct.pack({sf!r}, *v)"]), exp.hex(), str(got)[:100])
            return
        back = obs(lambda: bs.Bits(bytes=exp).unpack(fmt))
        ev = list(struct.unpack(sf, exp))
        acc.step('unpack', 1, nontrivial=1, ok=1)
        if not (back[0] == 'ok' and len(back[1]) == len(ev) and all(feq(a, b) for a, b in zip(back[1], ev))):
            acc.violation('unpack', 'value' if back[0] == 'ok' else 'exc', dict(fmt=fmt, bytes=exp.hex(), group=fmt[0] + '|' + fmt[-1]),
                          '\n'.join(["import bitstring, struct", f"b = bytes.fromhex({exp.hex()!r})", f"r = bitstring.Bits(bytes=b).unpack({fmt!r})", f"e = list(struct.unpack({sf!r}, b))",
                                     "assert len(r) == len(e) and all((x != x and y != y) or (x == y and type(x) is type(y)) for x, y in zip(r, e)), (r, e)"]), str(ev)[:100], str(back)[:100])
        acc.outcome((fmt, exp[:6]))
    else:
        if not (got[0] == 'exc' and got[1] in ('ValueError', 'CreationError')):
            acc.violation('pack', 'noexc', dict(fmt=fmt, values=vsrc[:80], group='range'), '\n'.join(["import bitstring", "try:", f"    r = bitstring.pack({fmt!r}, *{vsrc})", "except ValueError:", "    pass",
                                                                                                         "else:", "    assert False, r"]), 'ValueError', str(got)[:100])


def single(bs, acc, p):
    for c in CODES:
        vs = vals(c)
        for cnt in ('', '1', '2', '3', '10', '12'):
            k = int(cnt) if cnt else 1
            body = cnt + c
            tuples = [tuple(vs[(i + j) % len(vs)] for j in range(k)) for i in range(len(vs))]
            if c in INT_CODES:
                n = SIZE[c] * 8
                over = (1 << n) if c.isupper() else (1 << (n - 1))
                tuples += [tuple([over] + [0] * (k - 1)), tuple([0] * (k - 1) + [-over - 1])]
            for t in tuples:
                check_pack(bs, acc, p + body, sfmt(p, body), t)
            # Array(code, values).tobytes() == struct output ; Array from array.array
            if cnt == '':
                fin = [v for v in vs]
                exp = struct.pack(sfmt(p, f'{len(fin)}{c}'), *fin)
                got = obs(lambda: bs.Array(p + c, fin).tobytes())
                acc.step('array', 1, nontrivial=1, ok=1)
                if got != ('ok', exp):
                    acc.violation('array', 'value' if got[0] == 'ok' else 'exc', dict(code=p + c, group=p + c),
                                  '\n'.join(["import bitstring, struct", "nan, inf = float('nan'), float('inf')", f"v = {fin!r}",
                                             f"assert bitstring.Array({p + c!r}, v).tobytes() == struct.pack({sfmt(p, str(len(fin)) + c)!r}, *v)"]), exp.hex()[:60], str(got)[:100])
                got = obs(lambda: bs.Array(p + c, exp).tolist())
                acc.step('array', 1, nontrivial=1, ok=1)
                if not (got[0] == 'ok' and len(got[1]) == len(fin) and all(feq(a, b) for a, b in zip(got[1], struct.unpack(sfmt(p, f'{len(fin)}{c}'), exp)))):
                    acc.violation('array', 'value' if got[0] == 'ok' else 'exc', dict(code=p + c, what='tolist', group=p + c),
                                  '\n'.join(["import bitstring, struct", f"b = bytes.fromhex({exp.hex()!r})", f"r = bitstring.Array({p + c!r}, b).tolist()",
                                             f"e = list(struct.unpack({sfmt(p, str(len(fin)) + c)!r}, b))", "assert all((x != x and y != y) or x == y for x, y in zip(r, e)) and len(r) == len(e), (r, e)"]),
                                  None, str(got)[:100])
    acc.sample(dict(prefix=p, event="pack(p + '2h', v1, v2).bytes == struct.pack(...); unpack inverts; Array(p + 'h', values).tobytes()"))


def pairs(bs, acc, p):
    for a, b in itertools.product(CODES, CODES):
        va, vb = vals(a), vals(b)
        for i in range(max(len(va), len(vb))):
            t = (va[i % len(va)], vb[(i * 3 + 1) % len(vb)])
            check_pack(bs, acc, p + a + b, sfmt(p, a + b), t)
        check_pack(bs, acc, p + '2' + a + b, sfmt(p, '2' + a + b), (va[0], va[-1], vb[0]))
        check_pack(bs, acc, f"{p}{a}, {p}{b}", sfmt(p, a + b), (va[1], vb[-1]))
        check_pack(bs, acc, f"2*{p}{a}{b}", sfmt(p, a + b + a + b), (va[1], vb[-1], va[-1], vb[0]))
        if SIZE[a] == SIZE[b]:
            # the same format string used by another consumer in between (Array.pp takes two tokens of equal width): it must still mean the same
            fmt2 = p + a + b
            obs(lambda: bs.Array(p + a, [va[0]]).pp(fmt2, stream=io.StringIO()))
            obs(lambda: bs.Bits(8 * SIZE[a]).pp(fmt2, stream=io.StringIO()))
            check_pack(bs, acc, fmt2, sfmt(p, a + b), (va[-1], vb[0]))
    acc.sample(dict(prefix=p, event="pack(p + 'hQ', ...), pack('2*' + p + 'bH', ...) against struct"))


def triples(bs, acc, p, a):
    """thorough: every ordered triple of codes with counts on each position, every value rotation."""
    va = vals(a)
    for b, c in itertools.product(CODES, CODES):
        vb, vc = vals(b), vals(c)
        for i in range(max(len(va), len(vb), len(vc))):
            t = (va[i % len(va)], vb[(i * 3 + 1) % len(vb)], vc[(i * 5 + 2) % len(vc)])
            check_pack(bs, acc, p + a + b + c, sfmt(p, a + b + c), t)
        for ca, cb, cc in ((2, 1, 1), (1, 2, 1), (1, 1, 2), (0, 1, 2), (1, 0, 1), (3, 1, 0), (10, 1, 1)):
            body = ''.join((str(k) if k != 1 else '') + x for k, x in ((ca, a), (cb, b), (cc, c)))
            sbody = ''.join(str(k) + x for k, x in ((ca, a), (cb, b), (cc, c)))
            t = tuple(va[j % len(va)] for j in range(ca)) + tuple(vb[(j + 1) % len(vb)] for j in range(cb)) + tuple(vc[(j + 2) % len(vc)] for j in range(cc))
            check_pack(bs, acc, p + body, sfmt(p, sbody), t)
    acc.sample(dict(prefix=p, first=a, event="pack(p + 'h2Bq', ...) for every ordered triple of codes and 7 count patterns against struct"))


TYPECODES = 'bBhHiIlLqQfd'


def array_array(bs, acc):
    """Array accepts array.array input only when the item kind and width match, reading it back to the same values."""
    for tc in TYPECODES:
        aa = array.array(tc)
        width = aa.itemsize * 8
        kind = 'float' if tc in 'fd' else ('uint' if tc.isupper() else 'int')
        base = [1, 2, 3] if kind != 'float' else [1.0, -2.5, 0.5]
        if kind == 'int':
            base = [-1, 2, -(1 << (width - 1))]
        if kind == 'uint':
            base = [1, (1 << width) - 1, 0]
        aa = array.array(tc, base)
        for p in '=@<>':
            for c in CODES:
                ckind = 'float' if c in FLOAT_CODES else ('uint' if c.isupper() else 'int')
                cwidth = SIZE[c] * 8
                native = p in '=@' or p == NATIVE or SIZE[c] == 1      # byte order is immaterial for one-byte items
                match = ckind == kind and cwidth == width and native
                acc.state((tc, p + c))
                for op, th, src in (('ctor', lambda: bs.Array(p + c, aa).tolist(), f"bitstring.Array({p + c!r}, aa).tolist()"),
                                    ('extend', lambda: _ext(bs, p + c, aa), f"(lambda x: (x.extend(aa), x.tolist())[1])(bitstring.Array({p + c!r}))")):
                    got = obs(th)
                    acc.step('array-from-array', 1, nontrivial=int(match), ok=int(match), rej=int(not match))
                    if match:
                        good = got == ('ok', list(aa))
                    else:
                        good = got[0] == 'exc' and got[1] in ('ValueError', 'TypeError', 'CreationError')
                    if not good:
                        acc.violation('array-from-array', 'value' if match else 'noexc', dict(typecode=tc, code=p + c, op=op, group=f"{'match' if match else 'mismatch'}|{op}"),
                                      '\n'.join(["import bitstring, array", f"aa = array.array({tc!r}, {base!r})", "try:", f"    r = {src}", "except (ValueError, TypeError):", "    r = 'rejected'",
                                                 f"assert r == {(list(aa) if match else 'rejected')!r}, r"]), list(aa) if match else 'rejected', str(got)[:100])
                if match:
                    try:
                        a = bs.Array(p + c, aa)
                    except Exception:  # noqa: BLE001 - already reported by the ctor event above
                        continue
                    for name, th, exp in (('equals', lambda: a.equals(aa), True), ('tobytes', lambda: a.tobytes(), aa.tobytes()),
                                          ('equals-other', lambda: a.equals(array.array(tc, base[:-1])), False)):
                        got = obs(th)
                        acc.step('array-from-array', 1, nontrivial=1, ok=1)
                        if got != ('ok', exp):
                            acc.violation('array-from-array', 'value', dict(typecode=tc, code=p + c, op=name), "# Array vs array.array: equals/tobytes\nassert False", exp, str(got)[:100])
        acc.outcome(('aa', tc, width))
    acc.sample(dict(event="Array('=l', array.array('l', [...])) accepted iff kind and byte width match"))


def _ext(bs, code, aa):
    x = bs.Array(code)
    x.extend(aa)
    return x.tolist()


def endian_relations(bs, acc, bits, view=None):
    """xle == xbe(byte-reversed); xne == x{sys.byteorder}; for x in uint, int, float, bfloat.
    view = (route name, ctx): the two objects are built through a view route (window onto a longer file / buffer) instead of Bits(bin=...)."""
    n = len(bits)
    rev = ''.join(reversed([bits[i:i + 8] for i in range(0, n, 8)]))
    if view:
        from .. import routes as RT
        cls = ('Bits', 'ConstBitStream')[n // 8 % 2]
        o, r = RT.build(bs, view[0], cls, bits, view[1]), RT.build(bs, view[0], cls, rev, view[1])
        osrc, rsrc, prelude = RT.source(view[0], cls, bits), RT.source(view[0], cls, rev), RT.SNIPPET_PRELUDE
    else:
        o, r = bs.Bits(bin=bits), bs.Bits(bin=rev)
        osrc, rsrc, prelude = f"bitstring.Bits(bin={bits!r})", f"bitstring.Bits(bin={rev!r})", "import bitstring"
    kinds = ['uint', 'int'] + (['float'] if n in (16, 32, 64) else []) + (['bfloat'] if n == 16 else [])
    for x in kinds:
        be = x + 'be'
        le = x + 'le'
        ne = x + 'ne'
        a = obs(lambda: getattr(o, le))
        b = obs(lambda: getattr(r, be))
        c = obs(lambda: getattr(o, ne))
        d = obs(lambda: getattr(o, le if sys.byteorder == 'little' else be))
        acc.step('endian', 2, nontrivial=2, ok=2)
        good = a[0] == b[0] == c[0] == d[0] == 'ok' and feq(a[1], b[1]) and feq(c[1], d[1])
        if x in ('uint', 'int') and good:
            v = int(rev, 2)
            if x == 'int' and rev[0] == '1':
                v -= 1 << n
            good = a[1] == v
        if not good:
            acc.violation('endian', 'value', dict(kind=x, bits=bits if n <= 64 else f'{n} bits', route=view[0] if view else None, group=x + (view[0] if view else '')),
                          '\n'.join([prelude, "import sys", f"o, r = {osrc}, {rsrc}", "eq = lambda p, q: (p != p and q != q) or p == q",
                                     f"assert eq(o.{le}, r.{be}) and eq(o.{ne}, getattr(o, '{x}' + ('le' if sys.byteorder == 'little' else 'be')))"]), None, (a, b, c, d))
        # creation side: building le from the value gives the byte-reversed be encoding
        if a[0] == 'ok' and not (isinstance(a[1], float) and a[1] != a[1]):
            mk = obs(lambda: bs.Bits(**{le: a[1]}, length=n).bin if x != 'bfloat' else bs.Bits(**{le: a[1]}).bin)
            mk2 = obs(lambda: bs.Bits(**{be: a[1]}, length=n).bin if x != 'bfloat' else bs.Bits(**{be: a[1]}).bin)
            acc.step('endian', 1, nontrivial=1, ok=1)
            if mk != ('ok', bits) or mk2 != ('ok', rev):
                acc.violation('endian', 'value', dict(kind=x, bits=bits if n <= 64 else f'{n} bits', what='build', group=x + '-build'),
                              '\n'.join(["import bitstring", f"v = bitstring.Bits(bin={bits!r}).{le}", f"assert bitstring.Bits({le}=v{'' if x == 'bfloat' else f', length={n}'}).bin == {bits!r}"]), bits, (mk, mk2))


def endian16(bs, acc, lo, hi):
    for p in range(lo, hi):
        endian_relations(bs, acc, format(p, '016b'))
    acc.state(('endian16', lo))
    acc.outcome(('endian16', lo))
    acc.sample(dict(event="Bits(bin=p).uintle == Bits(bin=byte_reversed(p)).uintbe for every 16-bit p; same for int, float, bfloat, ne"))


def endian_edge(bs, acc, seed):
    from .. import routes as RT
    ctx = RT.Ctx()
    try:
        for L in (8, 16, 24, 32, 40, 64, 128):
            for d in families.edge(L, seed, full=True):
                endian_relations(bs, acc, d)
                acc.state(('endian', L, d[:16]))
                # the same relations on windows onto longer sources: the bytes beyond the window must play no part
                for r in ('file_len', 'file_off3_len', 'bytes_off3', 'bytesio', 'stepslice'):
                    endian_relations(bs, acc, d, view=(r, ctx))
    finally:
        ctx.close()


def byteswaps(bs, acc, seed):
    """byteswap converts between the two encodings, twice is the identity; Array.byteswap likewise."""
    pats = [(None, None), (0, None), (1, [1]), (2, [2]), ([1, 2], [1, 2]), ('h', [2]), ('<2h', [2, 2]), ('bh', [1, 2]), ('10b', [1] * 10), ('12h', [2] * 12), ('2hq', [2, 2, 8]),
            ('>10bh', [1] * 10 + [2]), ((4, 4), [4, 4]), ('d', [8]), ('e', [2]), (3, [3])]
    for L in (8, 16, 24, 32, 48, 64, 96, 128, 192, 200, 17):
        for d in families.edge(L, seed, full=False)[:5]:
            for fmt, sizes in pats:
                for rep in (True, False):
                    a = bs.BitArray(bin=d)
                    if sizes is None:
                        sizes_ = [L // 8]
                    else:
                        sizes_ = sizes
                    total = 8 * sum(sizes_)
                    reps = (L // total if total else 0)
                    if not rep:
                        reps = min(reps, 1)
                    out = list(d)
                    pos = 0
                    for _ in range(reps):
                        for sz in sizes_:
                            chunk = d[pos:pos + 8 * sz]
                            out[pos:pos + 8 * sz] = list(''.join(reversed([chunk[i:i + 8] for i in range(0, len(chunk), 8)])))
                            pos += 8 * sz
                    exp = ''.join(out)
                    got = obs(lambda: (a.byteswap(fmt, repeat=rep), a.bin))
                    acc.state((L, str(fmt), rep, d[:16]))
                    acc.step('byteswap', 1, nontrivial=int(reps > 0), ok=1)
                    if got != ('ok', (reps, exp)):
                        acc.violation('byteswap', 'value' if got[0] == 'ok' else 'exc', dict(fmt=str(fmt), bits=d if L <= 64 else f'{L} bits', repeat=rep, group=str(fmt)),
                                      '\n'.join(["import bitstring", f"a = bitstring.BitArray(bin={d!r})", f"n = a.byteswap({fmt!r}, repeat={rep})", f"assert (n, a.bin) == ({reps}, {exp!r}), (n, a.bin)"]),
                                      (reps, exp[:40]), str(got)[:120])
                    elif reps:
                        again = obs(lambda: (a.byteswap(fmt, repeat=rep), a.bin))
                        acc.step('byteswap', 1, nontrivial=1, ok=1)
                        if again != ('ok', (reps, d)):
                            acc.violation('byteswap', 'value', dict(fmt=str(fmt), bits=d if L <= 64 else f'{L} bits', repeat=rep, what='twice', group='twice'),
                                          '\n'.join(["import bitstring", f"a = bitstring.BitArray(bin={d!r})", f"a.byteswap({fmt!r}, repeat={rep}); a.byteswap({fmt!r}, repeat={rep})", f"assert a.bin == {d!r}"]), d[:40], str(again)[:120])
    # windows: byteswap(fmt, start, end, repeat) against the C03 reference model (bsmc.models.mut.byteswap), both classes
    from ..models import mut as M
    for L in (16, 24, 40, 64, 72):
        for d in families.edge(L, seed, full=False)[2:5]:
            for fmt, _ in pats:
                for (st, en) in ((8, None), (None, L - 8), (8, L - 8), (3, None), (16, 24), (-16, None), (5, 5), (0, L), (8, L + 8), (L, None)):
                    for rep in (True, False):
                        for cls in ('BitArray', 'BitStream'):
                            a = getattr(bs, cls)(bin=d)
                            (eobs, enew), = M.byteswap(d, fmt, st, en, rep)
                            got = obs(lambda: (a.byteswap(fmt, st, en, repeat=rep), a.bin))
                            ok_ = int(eobs[0] == 'ok')
                            acc.step('byteswap', 1, nontrivial=int(ok_ and bool(eobs[1])), ok=ok_, rej=1 - ok_)
                            good = (got == ('ok', (eobs[1], enew))) if ok_ else (got[0] == 'exc' and got[1] in ('ValueError', 'CreationError') and a.bin == d)
                            if not good:
                                acc.violation('byteswap', 'value' if got[0] == 'ok' else 'exc', dict(fmt=str(fmt), bits=d if L <= 64 else f'{L} bits', start=st, end=en, repeat=rep, cls=cls, group=f'window|{fmt}'),
                                              '\n'.join(["import bitstring", f"a = bitstring.{cls}(bin={d!r})", "try:", f"    r = ('ok', a.byteswap({fmt!r}, {st}, {en}, repeat={rep}))",
                                                         "except ValueError:", "    r = ('exc', None)", f"assert (r, a.bin) == ({eobs!r}, {enew!r}), (r, a.bin)"]),
                                              (eobs, enew[:40]), str(got)[:120])
    # byteswap converts between le and be interpretation; Array.byteswap
    for c in 'hHiIqQefd':
        vs = [v for v in vals(c) if not (isinstance(v, float) and v != v)]
        be = bs.Array('>' + c, vs)
        le = bs.Array('<' + c, vs)
        x = bs.Array('>' + c, vs)
        got = obs(lambda: (x.byteswap(), x.data.bin)[1])
        acc.step('array-byteswap', 1, nontrivial=1, ok=1)
        if got != ('ok', le.data.bin):
            acc.violation('array-byteswap', 'value', dict(code=c), '\n'.join(["import bitstring", f"v = {vs!r}".replace('inf', "float('inf')").replace("-float('inf')", "float('-inf')"),
                                                                               f"x = bitstring.Array('>{c}', v); x.byteswap()", f"assert x.data == bitstring.Array('<{c}', v).data"]), le.data.bin[:40], str(got)[:100])
        x.dtype = '<' + c
        got = obs(lambda: x.tolist())
        acc.step('array-byteswap', 1, nontrivial=1, ok=1)
        if not (got[0] == 'ok' and all(feq(p, q) for p, q in zip(got[1], be.tolist()))):
            acc.violation('array-byteswap', 'value', dict(code=c, what='reinterpret'), "# byteswapped big-endian array read as little-endian differs\nassert False", str(be.tolist())[:80], str(got)[:100])
        got = obs(lambda: (x.byteswap(), x.byteswap(), x.data.bin)[2])
        acc.step('array-byteswap', 1, nontrivial=1, ok=1)
        if got != ('ok', le.data.bin):
            acc.violation('array-byteswap', 'value', dict(code=c, what='twice'), "# Array.byteswap twice is not the identity\nassert False", None, str(got)[:100])
        # BitArray.byteswap with the struct code converts the packed value too
        for v in vs[:4]:
            pk = bs.pack('>' + c, v)
            got = obs(lambda: (pk.byteswap(c), pk.bytes)[1])
            exp = struct.pack('<' + c, v)
            acc.step('byteswap', 1, nontrivial=1, ok=1)
            if got != ('ok', exp):
                acc.violation('byteswap', 'value', dict(code=c, value=repr(v), what='pack-swap'), '\n'.join(["import bitstring, struct", f"p = bitstring.pack('>{c}', {v!r}); p.byteswap({c!r})",
                                                                                                              f"assert p.bytes == struct.pack('<{c}', {v!r})"]), exp.hex(), str(got)[:100])
    try:
        got = obs(lambda: bs.Array('uint12', [1]).byteswap())
        if not (got[0] == 'exc' and got[1] == 'ValueError'):
            acc.violation('array-byteswap', 'noexc', dict(code='uint12'), "import bitstring\ntry:\n    bitstring.Array('uint12', [1]).byteswap()\nexcept ValueError:\n    pass\nelse:\n    assert False", 'ValueError', got)
        acc.step('array-byteswap', 1, rej=1)
    except Exception:  # noqa: BLE001
        pass
    acc.outcome(('byteswap',))
    acc.sample(dict(event="BitArray.byteswap(fmt, repeat) for 16 patterns x lengths; Array('>h').byteswap() == Array('<h') data; twice = identity"))
