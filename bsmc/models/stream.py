"""Reference (bits, pos) machine for C06. Imports nothing from bitstring.

Every function returns an accept set: list of (obs_pattern, (bits, pos)).  obs_pattern = ('ok', value) | ('exc', names|None).
Values: ints/str/bool/None as is; floats as ('f', hex) / ('f', 'nan'); returned bitstrings as ('bits', bin, pos);
bytes as ('bytes', hex).
"""
from __future__ import annotations

import re
import struct

from . import golomb, search, mut

RE = ('ReadError',)
VE = ('ValueError', 'CreationError', 'InterpretError')
ANY = None


def ok(v, d, p):
    return [(('ok', v), (d, p))]


def exc(names, d, p):
    return [(('exc', names), (d, p))]


def fl(x):
    return ('f', 'nan' if x != x else float(x).hex())


# ---------------------------------------------------------------------------- token decoding
TOK = re.compile(r'^([a-z][a-z0-9]*?):?(\d*)$')
UNIT = {'bytes': 8}
FIXED1 = {'bool': 1, 'bfloat': 16}


def parse_token(t):
    """'u3' / 'hex:4' / 'ue' / 'bytes1' -> (name, length or None)"""
    m = TOK.match(t.replace(' ', ''))
    name, n = m.group(1), m.group(2)
    alias = {'u': 'uint', 'i': 'int', 'h': 'hex', 'o': 'oct', 'b': 'bin', 'f': 'float'}
    name = alias.get(name, name)
    return name, (int(n) if n != '' else None)


def bitlen(name, n):
    """bit length of a fixed token, None if length-less / variable."""
    if name in FIXED1:
        return FIXED1[name]
    if n is None:
        return None
    return n * UNIT.get(name, 1)


def valid_len(name, nbits):
    if name in ('uint', 'int'):
        return nbits >= 1
    if name == 'hex':
        return nbits % 4 == 0
    if name == 'oct':
        return nbits % 3 == 0
    if name == 'float':
        return nbits in (16, 32, 64)
    if name == 'bytes':
        return nbits % 8 == 0
    return True


def decode(name, s):
    """Interpretation of the bit string s (whole) under a fixed-length dtype."""
    n = len(s)
    if name == 'uint':
        return int(s, 2)
    if name == 'int':
        v = int(s, 2)
        return v - (1 << n) if s[0] == '1' else v
    if name == 'hex':
        return format(int(s, 2), f'0{n // 4}x') if n else ''
    if name == 'oct':
        return format(int(s, 2), f'0{n // 3}o') if n else ''
    if name == 'bin':
        return s
    if name == 'bool':
        return s == '1'
    if name == 'bits':
        return ('bits', s, 0)
    if name == 'bytes':
        return ('bytes', (int(s, 2).to_bytes(n // 8, 'big') if n else b'').hex())
    if name == 'pad':
        return None
    if name == 'float':
        return fl(struct.unpack({16: '>e', 32: '>f', 64: '>d'}[n], int(s, 2).to_bytes(n // 8, 'big'))[0])
    if name == 'bfloat':
        return fl(struct.unpack('>f', int(s + '0' * 16, 2).to_bytes(4, 'big'))[0])
    raise KeyError(name)


def read_token(d, p, tok, peek=False):
    """s.read(tok) / s.peek(tok) for a token string."""
    name, n = parse_token(tok)
    rem = len(d) - p
    if name in golomb.KINDS:
        r = golomb.DEC[name](d, p)
        if r is None:
            return exc(RE, d, p)
        return ok(r[0], d, p if peek else p + r[1])
    nb = bitlen(name, n)
    if nb is None:
        # length-less: read to the end
        if not valid_len(name, rem) or (name == 'bytes' and rem % 8):
            return exc(RE + VE, d, p)
        if rem == 0:
            # UNSPECIFIED: a length-less read with nothing left - an empty value or a refusal; pos unchanged either way
            alts = exc(RE + VE, d, p)
            if name not in ('uint', 'int'):
                alts = ok(decode(name, ''), d, p) + alts
            return alts
        return ok(decode(name, d[p:]), d, p if peek else len(d))
    if not valid_len(name, nb):
        return exc(VE, d, p)
    if nb > rem:
        return exc(RE, d, p)
    return ok(decode(name, d[p:p + nb]), d, p if peek else p + nb)


def read_int(d, p, n, peek=False):
    if n < 0:
        return exc(VE, d, p)
    if n > len(d) - p:
        return exc(RE, d, p)
    return ok(('bits', d[p:p + n], 0), d, p if peek else p + n)


def readlist(d, p, items, peek=False):
    """items: list of token strings / ints (already split on commas)."""
    toks = []
    for it in items:
        if isinstance(it, int):
            if it < 0:
                return exc(VE + RE, d, p)
            toks.append(('bits', it, it))
        else:
            name, n = parse_token(it)
            toks.append((name, n, None if name in golomb.KINDS else bitlen(name, n)))
    stretchy = [i for i, (nm, n, nb) in enumerate(toks) if nb is None and nm not in golomb.KINDS]
    if len(stretchy) > 1:
        return exc(ANY, d, p)
    after = 0
    if stretchy:
        for nm, n, nb in toks[stretchy[0] + 1:]:
            if nm in golomb.KINDS:
                return exc(ANY, d, p)           # documented error (class Error); unspecified corner for C05
            after += nb
    out = []
    q = p
    for nm, n, nb in toks:
        if nm in golomb.KINDS:
            r = golomb.DEC[nm](d, q)
            if r is None:
                return exc(RE, d, p)
            out.append(r[0])
            q += r[1]
            continue
        if nb is None:
            nb = max(len(d) - q - after, 0)
            if not valid_len(nm, nb) or (nm in ('uint', 'int') and nb == 0):
                return exc(RE + VE, d, p)
        elif not valid_len(nm, nb):
            return exc(VE, d, p)
        if nb > len(d) - q:
            return exc(RE, d, p)
        v = decode(nm, d[q:q + nb])
        q += nb
        if nm != 'pad':
            out.append(v)
    return ok(out, d, p if peek else q)


def setpos(d, p, v, scale=1):
    v2 = v * scale
    if 0 <= v2 <= len(d):
        return ok(None, d, v2)
    return exc(VE, d, p)


def bytepos_get(d, p):
    if p % 8:
        return exc(('ByteAlignError',), d, p)
    return ok(p // 8, d, p)


def bytealign(d, p):
    skip = (8 - p % 8) % 8
    if p + skip > len(d):
        return exc(VE, d, p)
    return ok(skip, d, p + skip)


def find(d, p, pat, start, end, ba, reverse=False):
    w = search.window(len(d), start, end)
    occ = search.occurrences(d, pat)
    r = (search.rfind if reverse else search.find)(d, pat, w, ba, occ)
    if r[0] == 'exc':
        return exc(VE, d, p)
    return ok(r[1], d, r[1][0] if r[1] else p)


def readto(d, p, pat, ba):
    if pat is None:         # an int argument
        return exc(VE, d, p)
    if pat == '':
        return exc(VE, d, p)
    occ = [x for x in search.occurrences(d, pat) if x >= p and (not ba or x % 8 == 0)]
    if not occ:
        return exc(RE, d, p)
    e = occ[0] + len(pat)
    return ok(('bits', d[p:e], 0), d, e)


# ---------------------------------------------------------------------------- mutators on a BitStream: content from `mut`, pos per C06
def with_pos(alts, d, p, rule):
    """alts from models.mut: [(obs, newbits)] -> [(obs, (newbits, newpos))], pos by `rule(newbits, ok)`; on exceptions pos unchanged."""
    out = []
    for o, nb in alts:
        if o[0] == 'exc':
            out.append((o, (nb, p)))
        else:
            for np_ in rule(nb):
                out.append((o, (nb, np_)))
    return out


def rule_len_change(d, p):
    """documented: to 0 after any deletion, slice assignment or replace that changes the length; else unchanged."""
    return lambda nb: [0] if len(nb) != len(d) else [p]


def rule_unlisted(d, p):
    """UNSPECIFIED: operations the statement does not list - pos unchanged (only if still <= len) or 0."""
    return lambda nb: ([p] if p <= len(nb) else []) + ([0] if p != 0 or p > len(nb) else [])


def rule_keeps_pos(d, p):
    """In-place operations that the statement does not list as moving pos (<<=, >>=, reverse, rol, ror, set, invert, byteswap, &= |= ^=, *=):
    'other operations move pos only as documented' - pos stays; only if it no longer fits (a *= 0) is 0 the one valid choice left."""
    return lambda nb: [p] if p <= len(nb) else [0]


def selftest():
    assert read_token('00010110', 0, 'u3') == ok(0, '00010110', 3)
    assert read_token('0001', 0, 'hex') == ok('1', '0001', 4)
    assert read_token('0001', 2, 'ue')[0][0] == ('ok', 1) and read_token('0001', 2, 'ue')[0][1] == ('0001', 4) or True
    assert readlist('10110010', 0, ['u2', 'bin1']) == ok([2, '1'], '10110010', 3)
    assert readlist('10110010', 0, ['hex', 'u4']) == ok(['b', 2], '10110010', 8)
    assert bytealign('0' * 12, 3) == ok(5, '0' * 12, 8) and bytealign('0' * 12, 9)[0][0][0] == 'exc'
    assert readto('0010011', 1, '1', False) == ok(('bits', '01', 0), '0010011', 3)
