#!/bin/bash
# usage: tools/seed_eval.sh <dir with patch.diff demo.py meta.json> <PROP> [tier] [extra props...]
# 1. confirm in a scratch worktree of /repo HEAD: tests pass with the change, demo fails with / passes without it
# 2. apply to /repo, run the check(s), undo
# 3. keep under /verif/seeded/<name>/ with the results appended to meta.json
set -u
src=$(realpath "$1"); prop=$2; tier=${3:-quick}; shift 3 2>/dev/null || shift 2
extra="$*"
name=$(basename "$src")
wt=/tmp/seedwt-$$
git -C /repo worktree add -q --detach $wt HEAD || exit 2
trap 'git -C /repo worktree remove --force $wt >/dev/null 2>&1' EXIT
cd $wt
if ! git apply --check "$src/patch.diff" 2>/dev/null; then echo "SEED $name: patch does not apply to current HEAD"; exit 3; fi
PYTHONPATH=$wt /venv/bin/python "$src/demo.py" >/dev/null 2>&1; demo_orig=$?
git apply "$src/patch.diff"
PYTHONPATH=$wt /venv/bin/python "$src/demo.py" >/dev/null 2>&1; demo_mut=$?
tests=$(/venv/bin/python -m pytest -q -p no:cacheprovider -n 8 2>&1 | tail -1)
imp=$(PYTHONPATH=$wt /venv/bin/python -c "import bitstring; print(bitstring.__file__)")
cd /verif
echo "SEED $name: demo_orig_exit=$demo_orig demo_mut_exit=$demo_mut tests='$tests' import=$imp"
case "$tests" in *failed*|*error*) echo "SEED $name: REJECTED (tests fail)"; exit 4;; esac
if [ $demo_orig -ne 0 ] || [ $demo_mut -eq 0 ]; then echo "SEED $name: REJECTED (demo does not discriminate)"; exit 5; fi
git -C /repo apply "$src/patch.diff" || exit 6
results=""
for p in $prop $extra; do
  out=$(./check $p $tier 2>&1); rc=$?
  nv=$(echo "$out" | grep -c '^VIOLATION')
  echo "SEED $name: check $p $tier exit=$rc violations=$nv"
  echo "$out" | grep -A1 '^VIOLATION' | head -6
  echo "$out" | grep 'HARNESS-ERROR' | head -3
  results="$results $p:$tier:exit=$rc:violations=$nv"
done
git -C /repo checkout -- . 
mkdir -p /verif/seeded/$name
cp "$src/patch.diff" "$src/demo.py" /verif/seeded/$name/
python3 - "$src/meta.json" /verif/seeded/$name/meta.json "$demo_orig" "$demo_mut" "$tests" "$results" <<'PY'
import json, sys
m = json.load(open(sys.argv[1]))
dst = sys.argv[2]
try:
    old = json.load(open(dst))
except Exception:
    old = {}
m['confirmed'] = dict(demo_exit_original=int(sys.argv[3]), demo_exit_with_change=int(sys.argv[4]), test_suite_with_change=sys.argv[5],
                      how="tools/seed_eval.sh: scratch worktree of /repo HEAD, PYTHONPATH=<worktree> demo.py before/after git apply, full pytest with the change")
runs = old.get('check_runs', [])
runs.append(sys.argv[6].strip())
m['check_runs'] = runs
json.dump(m, open(dst, 'w'), indent=1)
PY
