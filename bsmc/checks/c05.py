"""C05 - pack, unpack and token strings are mutually inverse and compositional (product explorer over a format grammar).

Formats are GENERATED from an AST (token list with multipliers, brackets, spellings, whitespace), so the reference never
parses a format string: expected bits = concatenation of per-token reference encodings of the expanded AST.
"""
from __future__ import annotations

import itertools
import struct

from .. import core
from ..models import golomb as G
from ..util import obs

PROPERTY = 'C05'
VACUITY = dict(need_ok=['pack', 'tokenstring', 'unpack', 'readlist', 'split'], need_rej=['arity', 'size'], min_outcomes=300)


def describe(tier):
    q = tier == 'quick'
    return dict(bounds=dict(token_types=[t[0] for t in TYPES], spellings='name:n / namen / alias / keyword length / struct codes with > < = @ and counts',
                            sequences='all sequences of <= %d token types' % (3 if q else 4), groups='k*tok and k*(a, b) for k in 0..3; nested 2*(a, 2*(b)); empty items; whitespace variants; list-of-strings',
                            values='2 conforming values per value-taking token (all combinations up to 8); one too few; one too many; one wrongly sized value per format'),
                rule='each generated format x value tuple executed once through pack, token string with embedded values, unpack, readlist and the split forms; '
                     'non-trivial = a conforming value tuple (the model yields bits)',
                assumptions=['per-token encodings from int arithmetic / struct / models.golomb',
                             'unspecified corners excluded: a length-less token followed by a self-delimiting one; keywords shadowing dtype names; bytes values inside token strings'])


def ib(v, n):
    return format(v & ((1 << n) - 1), f'0{n}b') if n else ''


def fbits(v, n, le=False):
    b = struct.pack(('<' if le else '>') + {16: 'e', 32: 'f', 64: 'd'}[n], v)
    return ''.join(format(x, '08b') for x in b)


def rev(bits):
    return ''.join(reversed([bits[i:i + 8] for i in range(0, len(bits), 8)]))


class Tok:
    """One token of a format: spelling(s), value alphabet, encoder, normaliser of the unpacked value."""

    def __init__(self, typ, spell, nbits, values, enc, norm=None, kw=None, valsrc=repr, lenless=False, takes_value=True, unpackable=True, embed=None):
        self.typ, self.spell, self.nbits, self.values, self.enc, self.norm, self.kw, self.valsrc = typ, spell, nbits, values, enc, norm or (lambda v: v), kw or {}, valsrc
        self.lenless, self.takes_value, self.unpackable, self.embed = lenless, takes_value, unpackable, embed


def mk_types():
    T = []
    def add(name, variants):
        T.append((name, variants))
    add('uint', [Tok('uint', s, 5, [0, 19], lambda v: ib(v, 5), kw=kw) for s, kw in (('uint:5', None), ('uint5', None), ('u5', None), ('u:5', None), ('uint:n', {'n': 5}), ('u: 5', None))])
    add('int', [Tok('int', s, 7, [-64, 5], lambda v: ib(v, 7), kw=kw) for s, kw in (('int:7', None), ('i7', None), ('int:w', {'w': 7}), ('int7', None))])
    add('uintle', [Tok('uintle', s, 16, [1, 0xb2ff], lambda v: rev(ib(v, 16))) for s in ('uintle:16', 'uintle16', 'uintne16', '<H', '=H', '@H')])
    add('intbe', [Tok('intbe', s, 16, [-2, 300], lambda v: ib(v, 16)) for s in ('intbe:16', 'intbe16', '>h')])
    add('hex', [Tok('hex', s, 8, ['a5', '0f'], lambda v: ib(int(v, 16), 8)) for s in ('hex:8', 'hex8', 'h8', 'h:8')])
    add('bin', [Tok('bin', s, 3, ['101', '000'], lambda v: v) for s in ('bin:3', 'bin3', 'b3')])
    add('oct', [Tok('oct', s, 6, ['17', '70'], lambda v: ib(int(v, 8), 6)) for s in ('oct:6', 'oct6', 'o6')])
    add('float', [Tok('float', s, n, [1.5, -0.1], (lambda n, le: lambda v: fbits(v, n, le))(n, le), norm=(lambda n, le: lambda v: struct.unpack('>' + {16: 'e', 32: 'f', 64: 'd'}[n], struct.pack('>' + {16: 'e', 32: 'f', 64: 'd'}[n], v))[0])(n, le))
                  for s, n, le in (('float:32', 32, False), ('float32', 32, False), ('f16', 16, False), ('floatle:64', 64, True), ('>f', 32, False), ('<d', 64, True), ('floatbe16', 16, False), ('<e', 16, True))])
    add('bool', [Tok('bool', s, 1, [True, False], lambda v: '1' if v else '0') for s in ('bool', 'bool:1', 'bool1')])
    add('bits', [Tok('bits', s, 4, ['0b1010', '0x3'], lambda v: ib(int(v, 0), 4), norm=lambda v: ib(int(v, 0), 4)) for s in ('bits:4', 'bits4', '4')])
    add('bytes', [Tok('bytes', s, 16, [b'ab', b'\x00\xff'], lambda v: ''.join(format(x, '08b') for x in v)) for s in ('bytes:2', 'bytes2')])
    add('pad', [Tok('pad', s, 3, [None], lambda v: '000', takes_value=False) for s in ('pad:3', 'pad3')])
    add('golomb', [Tok(k, k, None, vals, G.ENC[k]) for k, vals in (('ue', [0, 6]), ('se', [-3, 2]), ('uie', [4, 0]), ('sie', [1, -5]))])
    add('struct-multi', [Tok('struct', s, nb, vals, enc, norm=None) for s, nb, vals, enc in (
        ('>2h', 32, [(1, -2), (300, 7)], lambda v: ib(v[0], 16) + ib(v[1], 16)), ('<bH', 24, [(-1, 513), (5, 1)], lambda v: ib(v[0], 8) + rev(ib(v[1], 16))),
        ('=2B', 16, [(1, 255), (0, 9)], lambda v: ib(v[0], 8) + ib(v[1], 8)), ('>qb', 72, [(-1, 3), (2 ** 40, -8)], lambda v: ib(v[0], 64) + ib(v[1], 8)),
        # a counted code followed by an uncounted one (the count must not carry over), a zero count, counts on both
        ('>2hB', 40, [(1, -2, 3), (300, 7, 255)], lambda v: ib(v[0], 16) + ib(v[1], 16) + ib(v[2], 8)), ('<0qH', 16, [(513,), (1,)], lambda v: rev(ib(v[0], 16))),
        ('>3bH', 40, [(1, -2, 3, 513), (0, 0, -1, 65535)], lambda v: ib(v[0], 8) + ib(v[1], 8) + ib(v[2], 8) + ib(v[3], 16)),
        ('<h2B', 32, [(-2, 1, 2), (258, 0, 255)], lambda v: rev(ib(v[0], 16)) + ib(v[1], 8) + ib(v[2], 8)), ('>2b2H', 48, [(1, 2, 3, 4), (-1, -128, 65535, 256)], lambda v: ib(v[0], 8) + ib(v[1], 8) + ib(v[2], 16) + ib(v[3], 16)))])
    add('literal', [Tok('literal', s, len(b), [None], (lambda b: lambda v: b)(b), takes_value=False, unpackable=False) for s, b in (('0xa5', '10100101'), ('0b101', '101'), ('0o17', '001111'), ('0XfF', '11111111'))])
    add('embedded', [Tok('embedded', s, len(b), [None], (lambda b: lambda v: b)(b), takes_value=False, unpackable=False, embed=(us, uv)) for s, b, us, uv in (
        ('uint:8=37', ib(37, 8), 'uint:8', 37), ('hex:8=a5', '10100101', 'hex:8', 'a5'), ('bool=True', '1', 'bool', True), ('ue=5', G.enc_ue(5), 'ue', 5),
        ('int:4=-3', ib(-3, 4), 'int:4', -3), ('bits:4=0b1010', '1010', 'bits:4', None), ('float:32=1.5', fbits(1.5, 32), 'float:32', 1.5), ('u3=v', ib(6, 3), 'u3', 6))])
    add('lenless', [Tok('lenless', s, None, vals, enc, norm=norm, lenless=True) for s, vals, enc, norm in (
        ('bin', ['10', '11100'], lambda v: v, None), ('hex', ['f', 'a5c'], lambda v: ib(int(v, 16), 4 * len(v)), None), ('oct', ['7', '12'], lambda v: ib(int(v, 8), 3 * len(v)), None),
        ('bin', ['', '1'], lambda v: v, None), ('hex', ['', 'ab'], lambda v: ib(int(v, 16), 4 * len(v)) if v else '', None), ('bits', ['', '0b1'], lambda v: v[2:], lambda v: v[2:]),
        ('bytes', [b'', b'q'], lambda v: ''.join(format(x, '08b') for x in v), None),
        ('bits', ['0b1', '0xff0'], lambda v: ib(int(v, 0), len(v) - 2 if v.startswith('0b') else 4 * (len(v) - 2)), lambda v: ib(int(v, 0), len(v) - 2 if v.startswith('0b') else 4 * (len(v) - 2))),
        ('bytes', [b'a', b'xyz'], lambda v: ''.join(format(x, '08b') for x in v), None))])
    # zero-length tokens are legal and contribute nothing - but only with an empty value
    add('zero', [Tok('zero', s, 0, [v, v], lambda x: '', norm=(lambda x: '') if s.startswith(('bits', '0')) else None, kw=kw, takes_value=tv)
                 for s, v, kw, tv in (('bits:0', '', None, True), ('hex:0', '', None, True), ('bin:0', '', None, True), ('pad:0', None, None, False), ('bits:z', '', {'z': 0}, True), ('oct0', '', None, True))])
    return T


TYPES = mk_types()
TYPE_INDEX = {name: i for i, (name, _) in enumerate(TYPES)}


# ---------------------------------------------------------------------------- AST
# item = ('tok', Tok) | ('group', k, [items]) | ('mult', k, Tok) | ('empty',)
def expand(items):
    out = []
    for it in items:
        if it[0] == 'tok':
            out.append(it[1])
        elif it[0] == 'mult':
            out += [it[2]] * it[1]
        elif it[0] == 'group':
            out += expand(it[2]) * it[1]
    return out


STYLES = {'plain': ('{k}*{t}', '{k}*({g})'), 'sp1': ('{k} * {t}', '{k} * ( {g} )'), 'sp2': ('{k}* {t}', '{k}* ({g})'), 'sp3': ('{k} *{t}', '{k} *({g})'), 'sp4': (' {k}*{t} ', '{k}*(\t{g}\n)')}


def render(items, sep=', ', style='plain'):
    ts, gs = STYLES[style]
    parts = []
    for it in items:
        if it[0] == 'tok':
            parts.append(it[1].spell)
        elif it[0] == 'mult':
            parts.append(ts.format(k=it[1], t=it[2].spell))
        elif it[0] == 'group':
            parts.append(gs.format(k=it[1], g=render(it[2], sep, style)))
        else:
            parts.append('')
    return sep.join(parts)


def kwargs_of(toks):
    kw = {}
    for t in toks:
        kw.update(t.kw)
        if t.spell == 'u3=v':
            kw['v'] = 6
    return kw


def flat_values(toks, choice):
    """Positional values for the expanded token list; choice[i] selects value 0/1 for the i-th value-taking token."""
    vals, i = [], 0
    per = []
    for t in toks:
        if not t.takes_value:
            per.append(None)
            continue
        v = t.values[choice[i % len(choice)] % len(t.values)]
        i += 1
        per.append(v)
        if t.typ == 'struct':
            vals += list(v)
        else:
            vals.append(v)
    return vals, per


def expected_bits(toks, per):
    return ''.join(t.enc(v) for t, v in zip(toks, per))


def expected_unpack(toks, per):
    out = []
    for t, v in zip(toks, per):
        if t.typ == 'pad' or t.spell.startswith('pad'):
            continue
        if t.typ == 'struct':
            out += list(v)
        else:
            out.append(t.norm(v))
    return out


def canon_unpacked(vals):
    out = []
    for v in vals:
        if hasattr(v, 'bin') and hasattr(v, 'tobytes'):
            out.append(v.bin)
        else:
            out.append(v)
    return out


def values_src(vals):
    return '[' + ', '.join("bitstring.Bits(%r)" % v if False else repr(v) for v in vals) + ']'


# ---------------------------------------------------------------------------- enumeration
def shards(tier, seed):
    q = tier == 'quick'
    n = len(TYPES)
    out = []
    for i in range(n):
        out.append(dict(kind='seq', first=i, depth=3 if q else 4))
    core_types = ['uint', 'hex', 'golomb', 'pad', 'struct-multi', 'lenless', 'embedded', 'bits']
    if not q:
        for a in core_types:
            out.append(dict(kind='core3', first=a, core=core_types))
    out.append(dict(kind='groups'))
    out.append(dict(kind='errors'))
    return out


def run_shard(shard, acc):
    bs = core.import_bitstring()
    with core.watchdog(2400):
        k = shard['kind']
        if k == 'seq':
            for depth in range(1, shard['depth'] + 1):
                for rest in itertools.product(range(len(TYPES)), repeat=depth - 1):
                    seq = (shard['first'],) + rest
                    run_seq(bs, acc, seq)
        elif k == 'core3':
            idx = [TYPE_INDEX[c] for c in shard['core']]
            for b, c in itertools.product(idx, idx):
                run_seq(bs, acc, (TYPE_INDEX[shard['first']], b, c))
        elif k == 'groups':
            groups(bs, acc)
        else:
            errors(bs, acc)
            big_values(bs, acc)
            keyword_values(bs, acc)


def run_seq(bs, acc, seq):
    # choose spellings round-robin so that every spelling of every type meets every position
    toks = []
    for pos, ti in enumerate(seq):
        variants = TYPES[ti][1]
        toks.append(variants[(sum(seq) + pos * 3 + ti) % len(variants)])
    if sum(1 for t in toks if t.lenless) > 1:
        return
    items = [('tok', t) for t in toks]
    nvals = sum(1 for t in toks if t.takes_value)
    choices = list(itertools.product((0, 1), repeat=min(nvals, 3))) or [()]
    for ci, choice in enumerate(choices):
        check_format(bs, acc, items, choice or (0,), sep=(', ', ',', ' ,  ')[(sum(seq) + ci) % 3], full=(ci == 0))


def check_format(bs, acc, items, choice, sep=', ', full=True, style='plain'):
    toks = expand(items)
    fmt = render(items, sep, style)
    kw = kwargs_of(toks)
    vals, per = flat_values(toks, choice)
    bits = expected_bits(toks, per)
    acc.state((fmt, tuple(map(repr, vals))))
    kwsrc = ''.join(f", {k}={v!r}" for k, v in kw.items())
    vsrc = ''.join(f", {v!r}" for v in vals)
    # pack
    got = obs(lambda: bs.pack(fmt, *vals, **kw), lambda r: (type(r).__name__, r.bin, len(r)))
    exp = ('ok', ('BitStream', bits, len(bits)))
    acc.step('pack', 1, nontrivial=1, ok=1)
    if got != exp:
        acc.violation('pack', 'value' if got[0] == 'ok' else 'exc', dict(fmt=fmt, values=repr(vals)[:100], group=group_of(toks)),
                      '\n'.join(["import bitstring", f"r = bitstring.pack({fmt!r}{vsrc}{kwsrc})", f"assert r.bin == {bits!r}, r.bin"]), bits, str(got)[:120])
        return
    acc.outcome(('pack', bits[:24], len(bits)))
    if not full:
        return
    # token string with embedded =value parts builds the same bits (bytes values cannot be spelled in a string)
    # (struct-code tokens take their values positionally only: '<H=1' is not a spelling the documentation offers)
    if all(t.typ not in ('bytes', 'struct') and t.spell[0] not in '<>=@' and not (t.typ == 'lenless' and t.spell == 'bytes') for t in toks) and not kw:
        parts = []
        for t, v in zip(toks, per):
            if not t.takes_value:
                parts.append(t.spell)
            else:
                parts.append(f"{t.spell}={v}")
        ts = ', '.join(parts)
        for cls in ('Bits', 'BitStream'):
            got = obs(lambda: getattr(bs, cls)(ts).bin)
            acc.step('tokenstring', 1, nontrivial=1, ok=1)
            if got != ('ok', bits):
                acc.violation('tokenstring', 'value' if got[0] == 'ok' else 'exc', dict(string=ts, group=group_of(toks)),
                              '\n'.join(["import bitstring", f"assert bitstring.{cls}({ts!r}).bin == {bits!r}"]), bits, str(got)[:120])
    # unpack / readlist invert pack
    if all(t.unpackable for t in toks):
        ll = [i for i, t in enumerate(toks) if t.lenless]
        if ll and any(t.typ in G.KINDS for t in toks[ll[0] + 1:]):
            pass          # UNSPECIFIED: a length-less token followed by a self-delimiting token (documented error)
        else:
            expu = expected_unpack(toks, per)
            s = bs.BitStream(bin=bits)        # the reference bits, not the implementation's pack (which is judged above)
            got = obs(lambda: canon_unpacked(s.unpack(fmt, **kw)))
            e2 = ('ok', canon_unpacked(expu))
            acc.step('unpack', 1, nontrivial=1, ok=1)
            if not same(got, e2):
                acc.violation('unpack', 'value' if got[0] == 'ok' else 'exc', dict(fmt=fmt, bits=bits[:80], group=group_of(toks)),
                              '\n'.join(["import bitstring", f"s = bitstring.Bits(bin={bits!r})", f"r = [x.bin if isinstance(x, bitstring.Bits) else x for x in s.unpack({fmt!r}{kwsrc})]",
                                         f"assert repr(r) == {repr(e2[1])!r}, r"]), e2[1], str(got)[:160])
            got = obs(lambda: (canon_unpacked(s.readlist(fmt, **kw)), s.pos))
            acc.step('readlist', 1, nontrivial=1, ok=1)
            if not (got[0] == 'ok' and same(('ok', got[1][0]), e2) and got[1][1] == len(bits)):
                acc.violation('readlist', 'value' if got[0] == 'ok' else 'exc', dict(fmt=fmt, bits=bits[:80], group=group_of(toks)),
                              '\n'.join(["import bitstring", f"s = bitstring.BitStream(bin={bits!r})", f"r = [x.bin if isinstance(x, bitstring.Bits) else x for x in s.readlist({fmt!r}{kwsrc})]",
                                         f"assert repr(r) == {repr(e2[1])!r} and s.pos == {len(bits)}, (r, s.pos)"]), (e2[1], len(bits)), str(got)[:160])
    # every split of the item list into two formats (list-of-strings form)
    for cut in range(0, len(items) + 1):
        f1, f2 = render(items[:cut], sep, style), render(items[cut:], sep, style)
        got = obs(lambda: bs.pack([f1, f2], *vals, **kw).bin)
        acc.step('split', 1, nontrivial=1, ok=1)
        if got != ('ok', bits):
            acc.violation('split', 'value' if got[0] == 'ok' else 'exc', dict(fmt=[f1, f2], values=repr(vals)[:100], group=group_of(toks)),
                          '\n'.join(["import bitstring", f"assert bitstring.pack({[f1, f2]!r}{vsrc}{kwsrc}).bin == {bits!r}"]), bits, str(got)[:120])
    # arity: one too few / one too many
    if vals:
        got = obs(lambda: bs.pack(fmt, *vals[:-1], **kw))
        acc.step('arity', 1, nontrivial=1, rej=1)
        if not (got[0] == 'exc' and got[1] in ('CreationError', 'ValueError')):
            acc.violation('arity', 'noexc' if got[0] == 'ok' else 'excclass', dict(fmt=fmt, what='too few', group='few'),
                          '\n'.join(["import bitstring", "try:", f"    r = bitstring.pack({fmt!r}{''.join(f', {v!r}' for v in vals[:-1])}{kwsrc})", "except ValueError:", "    pass", "else:", "    assert False, r"]), 'CreationError', str(got)[:100])
    got = obs(lambda: bs.pack(fmt, *(vals + [1]), **kw))
    acc.step('arity', 1, nontrivial=1, rej=1)
    if not (got[0] == 'exc' and got[1] in ('CreationError', 'ValueError')):
        acc.violation('arity', 'noexc' if got[0] == 'ok' else 'excclass', dict(fmt=fmt, what='too many', group='many'),
                      '\n'.join(["import bitstring", "try:", f"    r = bitstring.pack({fmt!r}{vsrc}, 1{kwsrc})", "except ValueError:", "    pass", "else:", "    assert False, r"]), 'CreationError', str(got)[:100])
    if len(acc.samples) < 3 and len(toks) >= 2:
        acc.sample(dict(fmt=fmt, values=repr(vals)[:120], kwargs=kw, expected_bits=bits[:64], events=['pack', 'token string', 'unpack', 'readlist', 'all splits', 'too few', 'too many']))


def same(a, b):
    if a[0] != b[0]:
        return False
    if a[0] != 'ok':
        return a == b
    x, y = a[1], b[1]
    if len(x) != len(y):
        return False
    for p, q in zip(x, y):
        if isinstance(p, float) or isinstance(q, float):
            if not (p == q or (p != p and q != q)):
                return False
        elif p != q or type(p) is not type(q):
            return False
    return True


def group_of(toks):
    return '+'.join(sorted({t.typ for t in toks}))


def groups(bs, acc):
    """Multipliers and brackets: n*(f) equals f written n times; nested factors; empty items; whitespace."""
    pick = lambda name, i=0: TYPES[TYPE_INDEX[name]][1][i]
    atoms = [pick('uint'), pick('hex', 1), pick('bool'), pick('golomb', 1), pick('pad'), pick('struct-multi', 1), pick('uintle', 3), pick('int', 1), pick('bits', 2), pick('float', 2),
             pick('literal', 1), pick('embedded', 0), pick('bytes')]
    for k in (0, 1, 2, 3):
        for a in atoms:
            check_format(bs, acc, [('mult', k, a)], (0, 1, 1))
            check_format(bs, acc, [('mult', k, a), ('tok', atoms[0])], (1, 0, 1))
            check_format(bs, acc, [('tok', atoms[1]), ('mult', k, a)], (1, 0, 0))
            for b in atoms[:8]:
                check_format(bs, acc, [('group', k, [('tok', a), ('tok', b)])], (0, 1, 0), full=(k != 3))
                check_format(bs, acc, [('group', k, [('tok', a), ('tok', b)]), ('tok', atoms[0])], (1, 1, 0), full=False)
                check_format(bs, acc, [('tok', atoms[2]), ('group', k, [('tok', a), ('tok', b)])], (0, 0, 1), full=False)
                if k in (1, 2):
                    check_format(bs, acc, [('group', 2, [('tok', a), ('group', k, [('tok', b)])])], (0, 1, 1), full=True)
                    check_format(bs, acc, [('group', k, [('mult', 2, a), ('tok', b)])], (1, 0, 1), full=False)
                    check_format(bs, acc, [('group', 1, [('group', k, [('tok', a), ('group', 2, [('tok', b)])])])], (1, 1, 0), full=False)
    # sibling groups: two or more bracketed groups side by side, inside a bracket and at top level
    for a, b, c in itertools.product(atoms[:4], atoms[:4], atoms[:3]):
        check_format(bs, acc, [('group', 2, [('tok', a), ('group', 2, [('tok', b)]), ('group', 3, [('tok', c)])])], (0, 1, 1), full=False)
        check_format(bs, acc, [('group', 1, [('group', 2, [('tok', a)]), ('group', 2, [('tok', b)]), ('tok', c)])], (1, 0, 1), full=False)
        check_format(bs, acc, [('group', 2, [('tok', a)]), ('group', 3, [('tok', b)]), ('group', 0, [('tok', c)]), ('tok', a)], (1, 1, 0), full=False)
        check_format(bs, acc, [('group', 1, [('tok', a), ('group', 1, [('tok', b)]), ('group', 1, [('group', 2, [('tok', c)])])])], (0, 0, 1), full=False)
    for sm in TYPES[TYPE_INDEX['struct-multi']][1]:
        for k in (0, 1, 2, 3):
            check_format(bs, acc, [('mult', k, sm), ('tok', atoms[0])], (1, 0, 1), full=False)
            check_format(bs, acc, [('group', k, [('tok', sm), ('tok', atoms[2])])], (0, 1, 1), full=False)
    # multi-digit factors; nesting where the inner group comes first; whitespace around '*' and '('
    for a, b in itertools.product(atoms[:5], atoms[:5]):
        for ko, ki in ((10, 2), (12, 10), (3, 2), (2, 11), (10, 10)):
            check_format(bs, acc, [('group', ko, [('group', ki, [('tok', a)]), ('tok', b)])], (0, 1, 1), full=(ko, ki) == (10, 2))
            check_format(bs, acc, [('group', ko, [('tok', b), ('group', ki, [('tok', a)])])], (1, 0, 1), full=False)
        check_format(bs, acc, [('mult', 10, a), ('group', 11, [('tok', b)])], (0, 1), full=False)
        for style in ('sp1', 'sp2', 'sp3', 'sp4'):
            check_format(bs, acc, [('group', 2, [('tok', a), ('tok', b)])], (0, 1, 1), style=style)
            check_format(bs, acc, [('mult', 3, a), ('group', 2, [('group', 2, [('tok', b)]), ('tok', a)])], (1, 0, 1), style=style, full=False)
    # empty items and whitespace
    for a, b in itertools.product(atoms[:6], repeat=2):
        check_format(bs, acc, [('tok', a), ('empty',), ('tok', b)], (0, 1))
        check_format(bs, acc, [('empty',), ('tok', a), ('tok', b), ('empty',)], (1, 0), sep=' , ')
        check_format(bs, acc, [('tok', a), ('tok', b)], (1, 1), sep='\t,\n ')
    acc.sample(dict(event="pack('2*(u5, 2*(hex8))', ...) equals the format written out; k = 0..3; empty items; whitespace"))


def keyword_values(bs, acc):
    """'tok=name' takes its value from the keyword `name`: also when that value is falsy (0, False, 0.0, '', an empty bitstring)."""
    cases = [('uint:8=a', dict(a=0), ib(0, 8)), ('int:5=a', dict(a=0), ib(0, 5)), ('bool=f', dict(f=False), '0'), ('bool=f', dict(f=0), '0'), ('float:32=x', dict(x=0.0), fbits(0.0, 32)),
             ('hex=h', dict(h=''), ''), ('bin=b', dict(b=''), ''), ('bits=z', dict(z=''), ''), ('ue=n', dict(n=0), G.enc_ue(0)), ('se=n', dict(n=0), G.ENC['se'](0)),
             ('uint:8=a, uint:4=b', dict(a=0, b=3), ib(0, 8) + ib(3, 4)), ('uint:8=a, uint:4=b', dict(a=7, b=0), ib(7, 8) + ib(0, 4)), ('u3=a, bool=f, u3=a', dict(a=0, f=False), '0000000'),
             ('uint:n=a', dict(n=6, a=0), ib(0, 6)), ('2*(u4=a)', dict(a=0), '00000000'), ('uint:8=a', dict(a=5), ib(5, 8)), ('bool=f', dict(f=True), '1'), ('hex=h', dict(h='a5'), '10100101')]
    for fmt, kw, exp in cases:
        kwsrc = ', '.join(f"{k}={v!r}" for k, v in kw.items())
        for rname, th, src in (('pack', lambda: bs.pack(fmt, **kw).bin, f"bitstring.pack({fmt!r}, {kwsrc}).bin"),
                               ('pack-list', lambda: bs.pack([fmt, 'u1=one'], one=1, **kw).bin[:-1], f"bitstring.pack([{fmt!r}, 'u1=one'], one=1, {kwsrc}).bin[:-1]")):
            got = obs(th)
            acc.state(('kwvalue', fmt, repr(sorted(kw.items())), rname))
            acc.step('pack', 1, nontrivial=1, ok=1)
            if got != ('ok', exp):
                acc.violation('pack', 'value' if got[0] == 'ok' else 'exc', dict(fmt=fmt, kwargs=repr(kw), route=rname, group='kwvalue'),
                              '\n'.join(["import bitstring", f"assert {src} == {exp!r}"]), exp, str(got)[:100])
    acc.sample(dict(event="pack('uint:8=a', a=0), pack('bool=f', f=False), pack('hex=h', h='')"))


def big_values(bs, acc):
    """Self-delimiting tokens with values at and around large powers of two (codewords of ~100-400 bits), alone and inside a format."""
    for k in ('ue', 'se', 'uie', 'sie'):
        for e in (31, 32, 48, 49, 50, 53, 63, 64, 100, 200):
            for d in (-2, -1, 0, 1):
                for sgn in ((1, -1) if k in ('se', 'sie') else (1,)):
                    v = sgn * ((1 << e) + d)
                    code = G.ENC[k](v)
                    acc.state(('big', k, e, d, sgn))
                    for fmt, vals, exp in ((k, (v,), code), (f'uint:3, {k}, bool', (5, v, True), '101' + code + '1'), (f'2*{k}', (v, 3), code + G.ENC[k](3))):
                        got = obs(lambda: bs.pack(fmt, *vals).bin)
                        back = obs(lambda: bs.Bits(bin=exp).unpack(fmt))
                        acc.step('pack', 1, nontrivial=1, ok=1)
                        acc.step('unpack', 1, nontrivial=1, ok=1)
                        if got != ('ok', exp) or back != ('ok', list(vals)):
                            acc.violation('pack', 'value' if got[0] == 'ok' else 'exc', dict(fmt=fmt, values=repr(vals)[:80], group=f'big|{k}'),
                                          '\n'.join(["import bitstring", f"v = {vals!r}", f"b = bitstring.pack({fmt!r}, *v)", f"assert b.unpack({fmt!r}) == list(v), b.unpack({fmt!r})"]), exp[:40], str(got)[:80])
    acc.sample(dict(event="pack('uint:3, ue, bool', 5, 2**49 - 2, True) and back"))


def errors(bs, acc):
    """Wrongly sized values raise CreationError."""
    cases = [('hex:8', ['abc']), ('hex:8', ['a']), ('bin:3', ['10']), ('bin:3', ['1010']), ('oct:6', ['7']), ('bits:4', ['0b101']), ('bits:4', ['0x12']), ('bytes:2', [b'a']), ('bytes:2', [b'abc']),
             ('uint:5', [32]), ('uint:5', [-1]), ('int:7', [64]), ('int:7', [-65]), ('>h', [40000]), ('<H', [-1]), ('2*u4', [1, 16]), ('u4, 2*(hex4)', [1, 'a', 'ab']), ('ue', [-1]), ('uie', [-2]),
             ('bool', [2]), ('float:32', ['x']), ('bits:0', ['0xff']), ('bits:0', ['0b1']), ('0', ['0b1']), ('bits:0, uint:8', ['0xff', 1]), ('uint:8, bits:0', [1, '0b0']),
             ('hex:0', ['a']), ('bin:0', ['1']), ('oct:0', ['7']), ('bytes:0', [b'a']), ('2*bits:0', ['', '0b1']), ('u5, hex:8', [1, 'a5f']), ('hex:8, u5', ['a5', 32]), ('uintle:16', [65536]), ('intbe:16', [-32769]), ('4', ['0b1']), ('uint:n', [8])]
    for fmt, vals in cases:
        kw = {'n': 3} if fmt == 'uint:n' else {}
        if fmt == 'bits:0' and vals == ['0b1']:
            fmt, kw = 'bits:n', {'n': 0}
        got = obs(lambda: bs.pack(fmt, *vals, **kw))
        acc.state(('err', fmt, repr(vals)))
        acc.step('size', 1, nontrivial=1, rej=1)
        if not (got[0] == 'exc' and got[1] in ('CreationError', 'ValueError')):
            acc.violation('size', 'noexc' if got[0] == 'ok' else 'excclass', dict(fmt=fmt, values=repr(vals), group='size'),
                          '\n'.join(["import bitstring", "try:", f"    r = bitstring.pack({fmt!r}, *{vals!r}, **{kw!r})", "except ValueError:", "    pass", "else:", "    assert False, r"]), 'CreationError', str(got)[:100])
        acc.outcome(('err', fmt))
    acc.sample(dict(event="pack('hex:8', 'abc') -> CreationError"))
