"""C19 - printable forms faithfully describe the value (product explorer).

str / repr : state = (class, content, pos, lsb0)         oracle = round trip through the constructor / eval
pp         : state = (class, content, lsb0, no_color)    event = (fmt pair, group size, width, sep, show_offset)
             oracle = a PARSER of the printed text (not a re-implementation of the layout): digits in order == data (+ reported trailing
             bits), whole groups per line, line length <= width unless the line holds a single group, no escape sequences when no_color.
Array repr : eval(repr(a)).equals(a)
"""
from __future__ import annotations

import io
import re

from .. import core, families, routes as R
RT = R
from ..util import CLASSES, STREAMS, obs

PROPERTY = 'C19'
VACUITY = dict(need_ok=['str', 'repr', 'pp', 'array-repr', 'array-pp'], need_rej=['pp'], min_outcomes=300)

BPC = {'bin': 1, 'oct': 3, 'hex': 4}
DEFAULT_GROUP = {'bin': 8, 'hex': 8, 'oct': 12}


def describe(tier):
    q = tier == 'quick'
    return dict(bounds=dict(str_repr='all contents of length <= %d; every length 0..70 and 990..1010 and 4*MAX_CHARS-4..4*MAX_CHARS+4 from the pattern family; 4 classes x pos {0, mid, L} x lsb0' % (8 if q else 12),
                            pp_formats='None, bin, hex, oct, all ordered pairs; group sizes 3, 8, 12, 6, 24, 0 (ungrouped)', pp_widths='every width 0..%d on short data, step 7 to 200 on long data' % (80 if q else 200),
                            pp_sep=[' ', '', '|', '  '], show_offset=[True, False], modes='lsb0 x no_color', array='every C14 dtype with finite items'),
                rule='each (content, event) executed once; non-trivial = pp succeeds (the format can represent the length) / the value is not truncated',
                assumptions=['pp output is *parsed*: header, offset column, one or two digit columns separated by " : ", footer with trailing_bits',
                             'a ValueError from pp is accepted exactly where the docs promise one (a group length that is not a multiple of the bits per character)'])


def shards(tier, seed):
    q = tier == 'quick'
    out = []
    conts = list(families.all_bits(8 if q else 12))
    for part in families.chunk(conts, 16):
        out.append(dict(kind='str', conts=part))
    lens = list(range(0, 71)) + list(range(990, 1011)) + [996, 1000, 1001, 1003, 1004, 2000, 4001]
    for part in families.chunk(sorted(set(lens)), 16):
        out.append(dict(kind='strlen', lens=part, seed=seed))
    for mode in ((False, True), (True, True), (False, False)):
        for d in ['', '1', '101', '10110', '10110010', '101100100000000111', '1011001000000001110001100', ('1011001' * 12)[:77], ('10110010' * 13)[:97]]:
            out.append(dict(kind='pp', bits=d, lsb0=mode[0], no_color=mode[1], wmax=80 if q else 200, wstep=1))
        for L in (340, 1000):
            out.append(dict(kind='pp', bits=('10111100101101001' * 70)[:L], lsb0=mode[0], no_color=mode[1], wmax=200, wstep=7 if not q else 13))
    out.append(dict(kind='array'))
    out.append(dict(kind='colour', depth=3 if q else 5))
    return out


_CTX = [None]


def run_shard(shard, acc):
    bs = core.import_bitstring()
    saved = bs.options.no_color
    _CTX[0] = RT.Ctx()
    try:
        with core.watchdog(2400):
            k = shard['kind']
            if k == 'str':
                for d in shard['conts']:
                    str_repr(bs, acc, d)
            elif k == 'strlen':
                for L in shard['lens']:
                    for d in families.edge(L, shard['seed'], full=False)[:4] if L else ['']:
                        str_repr(bs, acc, d)
            elif k == 'pp':
                pp_all(bs, acc, shard)
            elif k == 'colour':
                colour_histories(bs, acc, shard['depth'])
            else:
                arrays(bs, acc)
    finally:
        bs.options.no_color = saved
        core.set_options()
        _CTX[0].close()
        _CTX[0] = None


def dsrc(cls, d, pos=0):
    if len(d) > 300:
        body = f"bin={d[:17]!r} * {len(d) // 17} + {d[len(d) - len(d) % 17:]!r}" if d[:17] * (len(d) // 17) + d[len(d) - len(d) % 17:] == d else f"bin={d!r}"
    else:
        body = f"bin={d!r}"
    return f"bitstring.{cls}({body}{', pos=%d' % pos if pos else ''})"


def str_repr(bs, acc, d):
    L = len(d)
    ns = {n: getattr(bs, n) for n in CLASSES}
    for lsb0 in (False, True):
        core.set_options(lsb0=lsb0)
        for cls in (CLASSES if L <= 70 else (CLASSES[L % 4],)):
            for pos in ([0] if cls not in STREAMS else sorted({0, L // 2, L})):
                c = getattr(bs, cls)
                s = c(bin=d, pos=pos) if pos else c(bin=d)
                acc.state((cls, d if L < 80 else (L, hash(d)), pos, lsb0))
                pre = ["import bitstring", "from bitstring import Bits, BitArray, ConstBitStream, BitStream", f"bitstring.options.lsb0 = {lsb0}", f"s = {dsrc(cls, d, pos)}"]
                st = obs(lambda: str(s))
                rp = obs(lambda: repr(s))
                maxbits = bs.bits.MAX_CHARS * 4
                nt = int(L <= maxbits)
                acc.step('str', 1, nontrivial=nt, ok=1)
                acc.step('repr', 1, nontrivial=nt, ok=1)
                if st[0] != 'ok' or rp[0] != 'ok':
                    acc.violation('str', 'exc', dict(cls=cls, bits=d if L < 80 else f'{L} bits', lsb0=lsb0), '\n'.join(pre + ["str(s); repr(s)"]), 'a string', (st, rp))
                    continue
                if L <= maxbits:
                    back = obs(lambda: bs.Bits(st[1]).bin)
                    if back != ('ok', d):
                        acc.violation('str', 'value', dict(cls=cls, bits=d if L < 80 else f'{L} bits', lsb0=lsb0, text=st[1][:60], group=f'lsb0={lsb0}'),
                                      '\n'.join(pre + ["assert bitstring.Bits(str(s)) == s, str(s)"]), d[:60], str(back)[:80])
                    ev = obs(lambda: eval(rp[1], dict(ns)))
                    good = ev[0] == 'ok' and type(ev[1]).__name__ == cls and ev[1].bin == d and getattr(ev[1], 'pos', 0) == pos
                    if good and back == ('ok', d) and L <= 16:
                        # the text stays a faithful description whatever is done to objects built from it: build mutable objects from the
                        # text (constructor, fromstring, eval of the repr), change them in place, and read the text again
                        def churn():
                            for m in (bs.BitArray(st[1]), bs.BitArray.fromstring(st[1]), bs.BitStream.fromstring(st[1]), eval(rp[1].replace('Bits(', 'BitArray(').replace('ConstBitStream(', 'BitStream(').replace('BitBitArray(', 'BitArray('), dict(ns))):
                                m.invert()
                                m.append('0b1')
                                m.reverse()
                            return (bs.Bits(st[1]).bin, eval(rp[1], dict(ns)).bin)
                        again = obs(churn)
                        acc.step('str', 1, nontrivial=1, ok=1)
                        if again != ('ok', (d, d)):
                            acc.violation('str', 'value', dict(cls=cls, bits=d, lsb0=lsb0, text=st[1][:60], group='text-reuse'),
                                          '\n'.join(pre + ["t = str(s)", "for m in (bitstring.BitArray(t), bitstring.BitArray.fromstring(t), bitstring.BitStream.fromstring(t)):", "    m.invert(); m.append('0b1'); m.reverse()",
                                                           "assert bitstring.Bits(t) == s and bitstring.Bits(str(s)) == s, bitstring.Bits(t).bin"]), (d, d), again)
                    if not good:
                        acc.violation('repr', 'value' if ev[0] == 'ok' else 'exc', dict(cls=cls, bits=d if L < 80 else f'{L} bits', pos=pos, lsb0=lsb0, text=rp[1][:60], group=f'lsb0={lsb0}'),
                                      '\n'.join(pre + ["r = eval(repr(s))", f"assert type(r) is type(s) and r == s and getattr(r, 'pos', 0) == {pos}, repr(s)"]), (cls, d[:40], pos), str(ev)[:100])
                else:
                    # truncated: marked with '...' together with the true length
                    good = st[1].endswith('...') and '...' in rp[1] and f'length={L}' in rp[1]
                    if not good:
                        acc.violation('repr', 'value', dict(cls=cls, bits=f'{L} bits', lsb0=lsb0, text=rp[1][-40:], group='truncated'),
                                      '\n'.join(pre + [f"assert str(s).endswith('...') and 'length={L}' in repr(s), repr(s)[-50:]"]), f"... and length={L}", rp[1][-60:])
                    # the shown prefix is the true prefix
                    m = re.match(r"^0x([0-9a-f]+)\.\.\.$", st[1])
                    if not m or format(int(d[:maxbits], 2), f'0{maxbits // 4}x') != m.group(1):
                        acc.violation('str', 'value', dict(cls=cls, bits=f'{L} bits', lsb0=lsb0, group='truncated-prefix'), '\n'.join(pre + ["# truncated str() does not show the first MAX_CHARS hex digits", "assert False"]), None, st[1][:40])
        # the same round trips on objects that are windows onto a longer source or derived objects (str() must show the window's bits;
        # repr() of a file-backed object names the file and the length, and evaluating it reopens the file)
        if 0 < L <= 70 and _CTX[0] is not None:
            for ri, r in enumerate(('file_len', 'file_off3_len', 'file_handle_len', 'bytes_off3', 'bytesio', 'stepslice', 'bitarray_le')):
                cls = ('Bits', 'ConstBitStream')[(L + ri) % 2]
                core.set_options(lsb0=False if r == 'stepslice' else lsb0)
                v = RT.build(bs, r, cls, d, _CTX[0])
                core.set_options(lsb0=lsb0)
                if v is None:
                    continue
                st, rp = obs(lambda: str(v)), obs(lambda: repr(v))
                back = obs(lambda: bs.Bits(st[1]).bin) if st[0] == 'ok' else st
                ev = obs(lambda: eval(rp[1], dict(ns))) if rp[0] == 'ok' else rp
                acc.step('str', 1, nontrivial=1, ok=1)
                acc.step('repr', 1, nontrivial=1, ok=1)
                good = back == ('ok', d) and ev[0] == 'ok' and type(ev[1]).__name__ == cls and ev[1].bin == d
                if not good:
                    acc.violation('str' if back != ('ok', d) else 'repr', 'value', dict(cls=cls, bits=d, lsb0=lsb0, route=r, group=f'view|{r}'),
                                  '\n'.join([RT.SNIPPET_PRELUDE, "from bitstring import Bits, BitArray, ConstBitStream, BitStream", f"s = {RT.source(r, cls, d)}", f"bitstring.options.lsb0 = {lsb0}",
                                             f"assert bitstring.Bits(str(s)).bin == {d!r}, str(s)", f"r = eval(repr(s))", f"assert type(r) is type(s) and r.bin == {d!r}, repr(s)"]),
                                  d, (str(back)[:60], str(ev)[:60]))
            # mutable objects created from a file, then changed in place: the printable forms must describe the new value
            for ri, r in enumerate(('file_len', 'file_whole', 'file_handle_len', 'file_off3_len')):
                cls = ('BitArray', 'BitStream')[(L + ri) % 2]
                v = RT.build(bs, r, cls, d, _CTX[0])
                if v is None:
                    continue
                for mi, (msrc, mut) in enumerate((("s.invert()", lambda x: x.invert()), ("s.append('0b1')", lambda x: x.append('0b1')), ("s.overwrite('0b0', 0); s.overwrite('0b1', 0)", None))):
                    v = RT.build(bs, r, cls, d, _CTX[0])
                    if mut is None:
                        v.overwrite('0b0', 0)
                        v.overwrite('0b1', 0)
                    else:
                        mut(v)
                    if cls == 'BitStream':
                        v.pos = 0
                    now = v.bin
                    st, rp = obs(lambda: str(v)), obs(lambda: repr(v))
                    back = obs(lambda: bs.Bits(st[1]).bin) if st[0] == 'ok' else st
                    ev = obs(lambda: eval(rp[1], dict(ns))) if rp[0] == 'ok' else rp
                    acc.step('str', 1, nontrivial=1, ok=1)
                    acc.step('repr', 1, nontrivial=1, ok=1)
                    if not (back == ('ok', now) and ev[0] == 'ok' and type(ev[1]).__name__ == cls and ev[1].bin == now):
                        acc.violation('repr', 'value', dict(cls=cls, bits=d, lsb0=lsb0, route=r, mutation=msrc, group=f'mutated-file|{r}'),
                                      '\n'.join([RT.SNIPPET_PRELUDE, "from bitstring import Bits, BitArray, ConstBitStream, BitStream", f"bitstring.options.lsb0 = {lsb0}", f"s = {RT.source(r, cls, d)}", msrc,
                                                 "s.pos = 0" if cls == 'BitStream' else "pass", "assert bitstring.Bits(str(s)) == s, str(s)", "r = eval(repr(s))", "assert type(r) is type(s) and r == s, repr(s)"]),
                                      now, (str(back)[:60], str(ev)[:60], rp[1][:60] if rp[0] == 'ok' else rp))
        acc.outcome(('str', L, d[:12]))
    core.set_options()
    if L == 7:
        acc.sample(dict(bits=d, events="Bits(str(s)) == s; eval(repr(s)) same class, bits and pos; 4 classes, pos 0/mid/L, msb0 and lsb0"))


# ---------------------------------------------------------------------------- pp
HEADER = re.compile(r"^<(\w+), fmt='([^']*)', length=(\d+) bits> \[$")


def parse_pp(text, cls, L, f1, f2, bpg, sep, show_offset, lsb0, width):
    """Parse pp output. Returns (data_bits_in_stored_order, trailing_bits, problems[])."""
    problems = []
    lines = text.split('\n')
    if lines[-1] != '':
        problems.append('no final newline')
    lines = lines[:-1]
    m = HEADER.match(lines[0])
    if not m:
        return None, None, ['bad header: ' + lines[0][:60]]
    if m.group(1) != cls or int(m.group(3)) != L:
        problems.append(f'header says {m.group(1)} length {m.group(3)}')
    foot = lines[-1]
    trailing = ''
    if foot.startswith('] + trailing_bits = '):
        t = foot[len('] + trailing_bits = '):]
        for part in t.split(', '):
            if part.startswith('0x'):
                trailing += format(int(part, 16), f'0{4 * (len(part) - 2)}b')
            elif part.startswith('0b'):
                trailing += part[2:]
            else:
                problems.append('bad trailing ' + t)
    elif foot != ']':
        problems.append('bad footer: ' + foot[:40])
    groups = []
    for ln in lines[1:-1]:
        body = ln
        if show_offset:
            if not lsb0:
                if ': ' not in ln:
                    problems.append('no offset column: ' + ln[:40])
                    continue
                off, body = ln.split(': ', 1)
                if not off.strip().isdigit():
                    problems.append('bad offset ' + off)
            else:
                if ' :' not in ln:
                    problems.append('no offset column: ' + ln[:40])
                    continue
                body, off = ln.rsplit(' :', 1)
                if not off.strip().isdigit():
                    problems.append('bad offset ' + off)
        parts = body.split(' : ') if f2 else [body]
        if len(parts) != (2 if f2 else 1):
            problems.append('column count: ' + ln[:60])
            continue
        cols = []
        for fmt, part in zip((f1, f2), parts):
            digits = part.replace(sep, '') if sep else part
            digits = digits.replace(' ', '')
            if not re.fullmatch(r'[0-9a-f]*', digits):
                problems.append(f'non-digit in column: {part[:40]!r}')
                digits = re.sub(r'[^0-9a-f]', '', digits)
            w = BPC[fmt]
            try:
                cols.append(''.join(format(int(ch, 16), f'0{w}b') for ch in digits))
            except ValueError:
                problems.append('digit out of range for ' + fmt)
                cols.append('')
        if f2 and cols[0] != cols[1]:
            problems.append('the two columns disagree: ' + ln[:60])
        linebits = cols[0]
        # whole groups per line (the last line of the data may end with a short group only when no explicit length was given)
        if bpg:
            gs = [linebits[i:i + bpg] for i in range(0, len(linebits), bpg)]
        else:
            gs = [linebits]
        ngroups = len(gs)
        visible = ln.rstrip(' ') if not lsb0 else ln.lstrip(' ')
        if len(visible) > width and ngroups > 1:
            problems.append(f'line of {len(visible)} chars with {ngroups} groups exceeds width {width}')
        if not bpg and len(visible) > width:
            # ungrouped: the smallest displayable unit is one character (24 bits for a pair of formats)
            unit = 24 if f2 else BPC[f1]
            if len(linebits) > unit:
                problems.append(f'ungrouped line of {len(visible)} chars exceeds width {width}')
        groups.append(gs)
    if bpg:
        for gs in groups[:-1]:
            if any(len(g) != bpg for g in gs):
                problems.append('a group is split across lines')
    flat = [g for gs in groups for g in gs]
    if lsb0:
        flat = flat[::-1]
        data = trailing + ''.join(flat)
    else:
        data = ''.join(flat) + trailing
    return data, trailing, problems


def pp_all(bs, acc, shard):
    d = shard['bits']
    L = len(d)
    lsb0, no_color = shard['lsb0'], shard['no_color']
    core.set_options(lsb0=lsb0)
    bs.options.no_color = no_color
    fmts = [None, 'bin', 'hex', 'oct'] + [f'{a}, {b}' for a in BPC for b in BPC if a != b] + ['bin3', 'bin8', 'hex8', 'hex12', 'oct6', 'bin:0', 'hex:0', 'oct:0', 'bin24, hex', 'hex, bin:16',
                                                                                               'oct12, hex', 'bin:0, hex:0', 'hex:0, oct:0', 'b, h', 'oct:0, bin:0', 'hex4', 'bin1', 'oct3, bin']
    widths = list(range(0, shard['wmax'] + 1, shard['wstep']))
    for ci, cls in enumerate(CLASSES):
        if L > 100 and ci != L % 4:
            continue
        s = getattr(bs, cls)(bin=d)
        acc.state((cls, d[:40], L, lsb0, no_color))
        for fi, fmt in enumerate(fmts):
            for sep in (' ', '', '|', '  '):
                for so in (True, False):
                    for w in (widths if (ci + fi) % 4 == 0 or L < 30 else widths[:: 5]):
                        one_pp(bs, acc, s, cls, d, fmt, w, sep, so, lsb0, no_color)
    bs.options.no_color = False
    core.set_options()


def fmt_info(fmt, L):
    """(f1, f2, bits per group, explicit length given)."""
    if fmt is None:
        fmt = 'bin, hex' if L % 8 == 0 and L >= 8 else 'bin'
    toks = [t.strip() for t in fmt.split(',')]
    names, lens = [], []
    alias = {'b': 'bin', 'h': 'hex', 'o': 'oct'}
    for t in toks:
        m = re.match(r'^([a-z]+):?(\d*)$', t)
        names.append(alias.get(m.group(1), m.group(1)))
        lens.append(int(m.group(2)) if m.group(2) != '' else None)
    given = [x for x in lens if x is not None]
    if given:
        if len(set(given)) > 1:
            return names, None, True, 'differ'
        return names, given[0], True, None
    if len(names) == 1:
        return names, DEFAULT_GROUP[names[0]], False, None
    g = 2 * BPC[names[0]] * BPC[names[1]]
    if g >= 24:
        g //= 2
    return names, g, False, None


def one_pp(bs, acc, s, cls, d, fmt, width, sep, so, lsb0, no_color):
    L = len(d)
    out = io.StringIO()
    kwargs = dict(width=width, sep=sep, show_offset=so, stream=out)
    got = obs(lambda: (s.pp(fmt, **kwargs) if fmt is not None else s.pp(**kwargs), out.getvalue())[1])
    names, bpg, has_len, err = fmt_info(fmt, L)
    f1 = names[0]
    f2 = names[1] if len(names) > 1 else None
    src = f"s.pp({fmt!r}, width={width}, sep={sep!r}, show_offset={so}, stream=out)" if fmt is not None else f"s.pp(width={width}, sep={sep!r}, show_offset={so}, stream=out)"
    pre = ["import bitstring, io", f"bitstring.options.lsb0 = {lsb0}", f"bitstring.options.no_color = {no_color}", f"s = {dsrc(cls, d)}", "out = io.StringIO()"]
    # can the format represent the data? every printed group must be a whole number of characters in each format
    trailing_len = (L % bpg) if (has_len and bpg) else 0
    D = L - trailing_len
    if err == 'differ':
        representable = False
    elif bpg:
        glens = {bpg} if D >= bpg else set()
        if D % bpg:
            glens.add(D % bpg)
        representable = all(g % BPC[n] == 0 for g in glens for n in names)
    else:
        representable = all(D % BPC[n] == 0 for n in names)
    acc.step('pp', 1, nontrivial=int(representable), ok=int(representable), rej=int(not representable))
    if got[0] == 'exc':
        if representable or got[1] not in ('ValueError', 'InterpretError', 'CreationError'):
            acc.violation('pp', 'exc', dict(cls=cls, bits=d if L < 80 else f'{L} bits', fmt=fmt, width=width, sep=sep, show_offset=so, lsb0=lsb0, exc=got[1], group=f'exc-{got[1]}'),
                          '\n'.join(pre + [src]), 'output', got)
        return
    text = got[1]
    if no_color and '\x1b' in text:
        acc.violation('pp', 'value', dict(cls=cls, fmt=fmt, width=width, group='escape'), '\n'.join(pre + [src, "assert '\\x1b' not in out.getvalue()"]), 'no escape sequences', 'escape sequence present')
        return
    if not no_color:
        text = re.sub(r'\x1b\[\d+m', '', text)
    if not representable:
        # it printed something although a group cannot be represented: must at least describe the data; judged by the parser below
        pass
    data, trailing, problems = parse_pp(text, cls, L, f1, f2, bpg, sep, so, lsb0, width)
    if data is not None and data != d:
        problems.append('digits do not spell the data')
    if data is not None and len(trailing) != trailing_len:
        problems.append(f'reports {len(trailing)} trailing bits, expected {trailing_len}')
    if problems:
        acc.violation('pp', 'value', dict(cls=cls, bits=d if L < 80 else f'{L} bits', fmt=fmt, width=width, sep=sep, show_offset=so, lsb0=lsb0, problem=problems[0], group=problems[0].split(':')[0][:30]),
                      '\n'.join(pre + [src, "print(out.getvalue())", f"assert False, {problems[0]!r}"]), 'faithful layout', problems[:3])
    acc.outcome(('pp', fmt, width % 16, sep, so, len(text) % 64))
    if len(acc.samples) < 2 and fmt == 'hex, bin' and width == 40:
        acc.sample(dict(cls=cls, bits=d[:64], fmt=fmt, width=width, sep=sep, show_offset=so, lsb0=lsb0, no_color=no_color, output=text[:200]))


def colour_histories(bs, acc, depth):
    """Every sequence of <= depth settings of options.no_color, a pp() after each: with no_color set the output has no escape sequence whatever was
    printed before; apart from escape sequences the text never depends on the setting (state kept by the colouring machinery must not leak)."""
    import itertools
    calls = [("s.pp(stream=out)", lambda s, out: s.pp(stream=out)), ("s.pp('bin, hex', width=40, stream=out)", lambda s, out: s.pp('bin, hex', width=40, stream=out)),
             ("a.pp(stream=out)", None), ("s.pp('hex', show_offset=False, stream=out)", lambda s, out: s.pp('hex', show_offset=False, stream=out))]
    ref = {}
    n = 0
    for k in range(1, depth + 1):
        for hist in itertools.product((True, False), repeat=k):
            for ci, (src, _) in enumerate(calls):
                bs.options.no_color = True
                s = bs.Bits(bin='101100100000000111000110')
                a = bs.Array('uint8', [1, 2, 255])
                text = None
                for setting in hist:
                    bs.options.no_color = setting
                    out = io.StringIO()
                    eval(src, dict(s=s, a=a, out=out))
                    text = out.getvalue()
                    n += 1
                    plain = re.sub(r'\x1b\[\d+m', '', text)
                    bad = None
                    if setting and '\x1b' in text:
                        bad = 'escape sequence although options.no_color is set'
                    elif ref.setdefault(ci, plain) != plain:
                        bad = 'text differs between colour settings / histories'
                    if bad:
                        acc.violation('pp', 'value', dict(history=list(hist), call=src, problem=bad, group=f'colour-history|{ci}'),
                                      '\n'.join(["import bitstring, io, re", "s = bitstring.Bits(bin='101100100000000111000110')", "a = bitstring.Array('uint8', [1, 2, 255])", "texts = []"] +
                                                [line for st in hist for line in (f"bitstring.options.no_color = {st}", "out = io.StringIO()", src, f"texts.append(({st}, out.getvalue()))")] +
                                                ["assert all('\\x1b' not in t for nc, t in texts if nc), texts", "assert len({re.sub(r'\\x1b\\[\\d+m', '', t) for nc, t in texts}) == 1"]),
                                      'no escape sequences when no_color is set; same text otherwise', bad)
                        break
            acc.state(('colour-history', hist))
    acc.step('pp', n, nontrivial=n, ok=n)
    acc.outcome(('colour-history', depth))
    acc.sample(dict(event=f"all sequences of <= {depth} settings of options.no_color with a pp() after each, 4 pp forms"))


def arrays(bs, acc):
    from ..models import array as A
    ns = dict(Array=bs.Array, BitArray=bs.BitArray, Bits=bs.Bits, inf=float('inf'), nan=float('nan'), bitstring=bs)
    for key, dt in A.DTYPES.items():
        for n in range(0, 4):
            for tr in ('', '1', '0110'):
                vals = (dt.values * 2)[:n]
                a = bs.Array(key, vals, trailing_bits=('0b' + tr) if tr else None)
                acc.state(('array', key, n, tr))
                rp = obs(lambda: repr(a))
                acc.step('array-repr', 1, nontrivial=1, ok=1)
                ev = obs(lambda: eval(rp[1], dict(ns))) if rp[0] == 'ok' else rp
                good = ev[0] == 'ok' and isinstance(ev[1], bs.Array) and ev[1].equals(a) and ev[1].data.bin == a.data.bin
                if not good:
                    acc.violation('array-repr', 'value' if ev[0] == 'ok' else 'exc', dict(dtype=key, n=n, trailing=tr, text=str(rp[1])[:80], group=dt.kind),
                                  '\n'.join(["import bitstring", "from bitstring import Array, BitArray, Bits", "inf = float('inf')",
                                             f"a = Array({key!r}, {vals!r}{', trailing_bits=' + repr('0b' + tr) if tr else ''})", "r = eval(repr(a))", "assert r.equals(a), repr(a)"]), 'equal Array', str(ev)[:100])
                # Array.pp: header, one value per item, trailing bits reported
                for width in (0, 10, 40, 120):
                    for so in (True, False):
                        out = io.StringIO()
                        bs.options.no_color = True
                        got = obs(lambda: (a.pp(width=width, show_offset=so, stream=out), out.getvalue())[1])
                        acc.step('array-pp', 1, nontrivial=1, ok=1)
                        if got[0] != 'ok':
                            acc.violation('array-pp', 'exc', dict(dtype=key, n=n, trailing=tr, width=width, group='exc'), "# Array.pp raised\nassert False", 'output', got)
                            continue
                        text = got[1]
                        lines = text.split('\n')
                        problems = []
                        if not lines[0].startswith('<Array ') or f'length={len(a)},' not in lines[0] or f'itemsize={dt.width} bits' not in lines[0]:
                            problems.append('header: ' + lines[0][:80])
                        if '\x1b' in text:
                            problems.append('escape sequence with no_color')
                        body = lines[1:-2]
                        toks = []
                        for ln in body:
                            if so:
                                if ': ' not in ln:
                                    problems.append('no offset: ' + ln[:30])
                                    continue
                                ln = ln.split(': ', 1)[1]
                            toks += ln.split()
                        exp_toks = [_pp_str(bs, key, v) for v in a.tolist()]
                        if dt.kind != 'bytes' and toks != exp_toks:
                            problems.append(f'values {toks[:4]} != {exp_toks[:4]}')
                        foot = lines[-2] if len(lines) >= 2 else ''
                        has_tr = len(a.data) % dt.width != 0
                        if has_tr and 'trailing_bits = ' not in foot:
                            problems.append('trailing bits not reported')
                        if not has_tr and foot != ']':
                            problems.append('footer ' + foot[:30])
                        if problems:
                            acc.violation('array-pp', 'value', dict(dtype=key, n=n, trailing=tr, width=width, show_offset=so, problem=problems[0][:80], group=problems[0].split(':')[0][:20]),
                                          "# Array.pp output does not describe the Array: " + problems[0][:80] + "\nassert False", 'faithful output', problems[:2])
                        bs.options.no_color = False
        acc.outcome(('array', key))
    acc.sample(dict(event="eval(repr(Array(dtype, values, trailing_bits))).equals(original) for every dtype; Array.pp parsed"))


def _pp_str(bs, key, v):
    if key == 'bool':
        return '1' if v else '0'
    return str(v)
