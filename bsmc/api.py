"""API battery shared by C08 (differential against a canonical twin) and C20 (clean failure).

Each entry: (name, source template, kind) ; the template may use {L} (length of the content).
kind: 'pure'   - must not change the object; many can be run on one object
      'stream' - only for stream classes; moves pos (run on a fresh object)
      'mut'    - only for mutable classes; run on a fresh object
The variable `s` is the object under test; helpers available in the namespace: bitstring, Bits, BitArray, io, copy, Dtype, PP.
"""
from __future__ import annotations

import copy
import io

PURE = [
    ('len', "len(s)"), ('bool', "bool(s)"), ('bin', "s.bin"), ('hex', "s.hex"), ('oct', "s.oct"), ('uint', "s.uint"), ('int', "s.int"),
    ('bytes', "s.bytes"), ('tobytes', "s.tobytes()"), ('bytes()', "bytes(s)"), ('uintbe', "s.uintbe"), ('intle', "s.intle"), ('uintne', "s.uintne"),
    ('float', "s.float"), ('floatle', "s.floatle"), ('bfloat', "s.bfloat"), ('boolprop', "s.bool"), ('ue', "s.ue"), ('sie', "s.sie"),
    ('p4binary', "s.p4binary"), ('e2m1mxfp', "s.e2m1mxfp"), ('lenprop', "(s.len, s.length)"), ('u8prop', "s.u8"), ('h', "s.h"), ('b', "s.b"),
    ('str', "str(s)"), ('getitem0', "s[0]"), ('getitem-1', "s[-1]"), ('getitemL', "s[{L}]"), ('getitemL-1', "s[{L} - 1]"), ('getitem-L-1', "s[-{L} - 1]"),
    ('slice13', "s[1:3]"), ('slice::2', "s[::2]"), ('slice::-1', "s[::-1]"), ('slice-3:', "s[-3:]"), ('slice5:2', "s[5:2]"), ('slice:', "s[:]"),
    ('slice1::3', "s[1::3]"), ('slice-1:0:-2', "s[-1:0:-2]"), ('slice:L+1', "s[:{L} + 1]"),
    ('iter', "list(s)"), ('add', "s + '0b1'"), ('addbits', "s + Bits(bin='01')"), ('radd', "'0b1' + s"), ('mul2', "s * 2"), ('mul0', "s * 0"), ('rmul', "3 * s"),
    ('invert', "~s"), ('lshift1', "s << 1"), ('rshift2', "s >> 2"), ('lshiftL', "s << {L}"), ('andself', "s & s"), ('orzeros', "s | Bits({L})"),
    ('xorones', "s ^ Bits(bin='1' * {L})"), ('andshort', "s & '0b1'"), ('randstr', "('0b' + '1' * {L} if {L} else '') & s"),
    ('eq', "s == Bits(bin=s.bin)"), ('ne', "s != Bits(bin=s.bin)"), ('eqstr', "s == '0b1'"), ('eqint', "s == 3"), ('lt', "s < s"),
    ('hash', "hash(s) == hash(Bits(bin=s.bin)) if type(s).__hash__ else 'unhashable'"),
    ('find1', "s.find('0b1')"), ('find1_2', "s.find('0b1', 2)"), ('findba', "s.find('0b1', bytealigned=True)"), ('findend', "s.find('0b0', 1, -1)"),
    ('findbad', "s.find('0b1', {L} + 1)"), ('findempty', "s.find('')"), ('rfind01', "s.rfind('0b01')"), ('rfindba', "s.rfind('0x00', bytealigned=True)"),
    ('findall1', "list(s.findall('0b1'))"), ('findallcnt', "list(s.findall('0b1', count=2))"), ('findallba', "list(s.findall('0b0', bytealigned=True))"),
    ('findall10', "list(s.findall('0b10', 1, None))"), ('contains', "'0b1' in s"), ('contains01', "Bits(bin='01') in s"),
    ('count1', "s.count(1)"), ('count0', "s.count(0)"), ('all1', "s.all(1)"), ('any0', "s.any(0)"), ('all0', "s.all(0)"), ('any1', "s.any(1)"),
    ('allpos', "s.all(1, [0, -1])"), ('anyposL', "s.any(1, [{L}])"), ('allrange', "s.all(0, range(0, {L}, 2))"),
    ('startswith', "s.startswith('0b1')"), ('startswith2', "s.startswith('0b0', 1)"), ('endswith', "s.endswith('0b0')"), ('endswithw', "s.endswith('0b1', 0, -1)"),
    ('cut3', "list(s.cut(3))"), ('cut8', "list(s.cut(8, 1, None, 2))"), ('cut0', "list(s.cut(0))"), ('split1', "list(s.split('0b1'))"),
    ('splitba', "list(s.split('0x00', bytealigned=True))"), ('splitcnt', "list(s.split('0b0', count=2))"), ('join', "s.join(['0b1', '0b0', s])"),
    ('unpackbin', "s.unpack('bin')"), ('unpack', "s.unpack('u2, bits')"), ('unpackhex', "s.unpack('hex')"), ('unpackue', "s.unpack('ue, bin')"),
    ('unpackbytes', "s.unpack('bytes')"), ('unpacklist', "s.unpack([1, 'bin'])"),
    ('tobitarray', "s.tobitarray().to01()"), ('copy', "s.copy()"), ('copycopy', "copy.copy(s)"), ('pp', "PP(s)"), ('ppbin', "PP(s, 'bin')"), ('pphex', "PP(s, 'hex', 30)"),
    ('parse', "Dtype('u3').parse(s[:3])"), ('parsebits', "Dtype('bits').parse(s)"), ('toBitArray', "BitArray(s)"), ('toBits', "Bits(s)"),
    ('bitskw', "Bits(bits=s)"), ('tofile', "TOFILE(s)"), ('uintbyte', "s[:8].uint if {L} >= 8 else None"), ('packbits', "bitstring.pack('bits, u3', s, 5)"),
    ('arraydata', "bitstring.Array('u2', s).tolist()"), ('arraytrail', "bitstring.Array('u3', s).trailing_bits"),
    ('fmt', "f'{{s}}'"), ('ltint', "s <= 3"),
    # the object in argument position: the needle, operand, replacement or payload of an operation on an ordinary in-memory object
    ('arg_find', "(lambda h: (h.find(s), h.rfind(s), h.find(s, bytealigned=True), h.rfind(s, bytealigned=True), list(h.findall(s)), "
                 "list(h.findall(s, bytealigned=True)), s in h, h.startswith(s), h.endswith(s), h.startswith(s, 8), list(h.split(s))))"
                 "(Bits(bin='00000000' + s.bin + '1' + s.bin))"),
    ('arg_readto', "(lambda h: (h.readto(s), h.pos))(bitstring.ConstBitStream(bin='0000' + s.bin + '10' + s.bin))"),
    ('arg_replace', "(lambda h: (h.replace(s, '0b10'), h.bin))(BitArray(bin='00000000' + s.bin + '1' + s.bin))"),
    ('arg_replace_ba', "(lambda h: (h.replace(s, '0b10', bytealigned=True), h.bin))(BitArray(bin='00000000' + s.bin + '1' + s.bin))"),
    ('arg_replace_with', "(lambda h: (h.replace('0b1', s), h.bin))(BitArray(bin='0101'))"),
    ('arg_payload', "(lambda h: (h.append(s), h.prepend(s), h.insert(s, 2), h.overwrite(s, 1), h.bin))(BitArray(bin='0110'))"),
    ('arg_stream_payload', "(lambda h: (h.insert(s), h.overwrite(s), h.append(s), h.bin, h.pos))(bitstring.BitStream(bin='0110', pos=1))"),
    ('arg_setslice', "(lambda h: (h.__setitem__(slice(1, 3), s), h.__setitem__(0, s), h.bin))(BitArray(bin='0110'))"),
    ('arg_bitwise', "(Bits({L}) | s, Bits(bin='1' * {L}) & s, Bits({L}) ^ s, (lambda h: (h.__ior__(s), h.bin))(BitArray({L})))"),
    ('arg_eq', "(Bits(bin=s.bin) == s, Bits(bin='1') == s, Bits(bin=s.bin) != s, BitArray(bin=s.bin) == s)"),
    ('arg_join', "(Bits().join([s, s]), Bits('0b1').join([s, '0b0', s]))"),
    ('arg_iadd', "(lambda h: (h.__iadd__(s), h.bin))(BitArray(bin='01'))"),
    ('arg_pack', "bitstring.pack('bits, u3, bits:{L}', s, 5, s)"),
    ('arg_array', "(lambda a: (a.extend(s) if {L} % 2 == 0 else None, a.data.bin, bitstring.Array('u2', [1], trailing_bits=s).trailing_bits.bin if {L} < 2 else None))(bitstring.Array('u2', [1]))"),
]

STREAM = [
    ('read3', "s.read(3)"), ('readu2', "s.read('u2')"), ('readbin', "s.read('bin')"), ('readhex', "s.read('hex')"), ('readbool', "s.read('bool')"),
    ('readue', "s.read('ue')"), ('readL+1', "s.read({L} + 1)"), ('peeku2', "s.peek('u2')"), ('readlist', "s.readlist('u1, bin2')"),
    ('readlistrest', "s.readlist('u1, bits')"), ('peeklist', "s.peeklist('2*u1')"), ('pos', "s.pos"), ('setpos2', "s.pos = 2"), ('setposL1', "s.pos = {L} + 1"),
    ('bytepos', "s.bytepos"), ('bytealign', "s.bytealign()"), ('readto', "s.readto('0b1')"), ('readtoba', "s.readto('0xff', bytealigned=True)"),
    ('seekread', "(setattr(s, 'pos', min(3, {L})), s.read('bits'))[1]"), ('findpos', "(s.find('0b1', 1), s.pos)"),
]

MUT = [
    ('append', "s.append('0b01')"), ('appendself', "s.append(s)"), ('prepend', "s.prepend(Bits(bin='10'))"), ('insert', "s.insert('0b1', 1)"),
    ('insertL1', "s.insert('0b1', {L} + 1)"), ('overwrite', "s.overwrite('0b11', 1)"), ('overwriteend', "s.overwrite('0b101', {L})"),
    ('del0', "del s[0]"), ('delslice', "del s[1:3]"), ('delstep', "del s[::2]"), ('delL', "del s[{L}]"),
    ('setitem', "s[0] = 1"), ('setitembits', "s[-1] = '0b10'"), ('setslice', "s[1:3] = '0b111'"), ('setsliceint', "s[0:2] = 3"), ('setstep', "s[::2] = 1"),
    ('setslicebad', "s[::2] = '0b1'"), ('replace', "s.replace('0b1', '0b00')"), ('replaceba', "s.replace('0x00', '0xff', bytealigned=True)"),
    ('replacecnt', "s.replace('0b0', '', count=1)"), ('reverse', "s.reverse()"), ('reverse13', "s.reverse(1, 3)"), ('rol', "s.rol(1)"), ('ror2', "s.ror(2, 1)"),
    ('set', "s.set(1, 0)"), ('setall', "s.set(0)"), ('setrange', "s.set(1, range(0, {L}, 3))"), ('setL', "s.set(1, {L})"), ('invert', "s.invert()"),
    ('invertpos', "s.invert([0, -1])"), ('byteswap', "s.byteswap()"), ('byteswap2', "s.byteswap(2)"), ('ilshift', "s <<= 1"), ('irshift', "s >>= 2"),
    ('imul', "s *= 2"), ('iand', "s &= s"), ('ior', "s |= Bits({L})"), ('ixor', "s ^= '0b1'"), ('iadd', "s += '0b1'"), ('clear', "s.clear()"),
    # derive, mutate the derived object, observe both (a route whose store is wrongly flagged shareable shows here)
    ('copymut', "(lambda c: (c.append('0b1'), c.invert(), s.bin, c.bin))(s.copy())[2:]"),
    ('copycopymut', "(lambda c: (c.invert(), c.prepend('0b1'), s.bin, c.bin))(copy.copy(s))[2:]"),
    ('slicemut', "(lambda c: (c.invert(), s.bin, c.bin))(s[:])[1:]"),
    ('ctormut', "(lambda c: (c.invert(), c.append('0b0'), s.bin, c.bin))(type(s)(s))[2:]"),
    ('selfmutcopy', "(lambda c: (s.invert(), s.append('0b1'), s.bin, c.bin))(s.copy())[2:]"),
    ('uintset', "s.uint = 1"), ('hexset', "s.hex = 'a'"), ('u5set', "s.u5 = 3"), ('bitsset', "s.bits = '0b1'"),
]


def PP(s, fmt=None, width=120):
    out = io.StringIO()
    if fmt is None:
        s.pp(stream=out, width=width)
    else:
        s.pp(fmt, stream=out, width=width)
    return out.getvalue()


def TOFILE(s):
    f = io.BytesIO()
    s.tofile(f)
    return f.getvalue()


def namespace(bs):
    return dict(bitstring=bs, Bits=bs.Bits, BitArray=bs.BitArray, io=io, copy=copy, Dtype=bs.Dtype, PP=PP, TOFILE=TOFILE)


HELPERS_SRC = '''import io, copy
from bitstring import Bits, BitArray, Dtype
def PP(s, fmt=None, width=120):
    out = io.StringIO()
    s.pp(stream=out, width=width) if fmt is None else s.pp(fmt, stream=out, width=width)
    return out.getvalue()
def TOFILE(s):
    f = io.BytesIO(); s.tofile(f); return f.getvalue()
'''


def battery(cls, L):
    """[(name, src, kind)] applicable to class `cls` for a content of L bits."""
    out = [(n, t.format(L=L), 'pure') for n, t in PURE]
    if cls in ('ConstBitStream', 'BitStream'):
        out += [(n, t.format(L=L), 'stream') for n, t in STREAM]
    if cls in ('BitArray', 'BitStream'):
        out += [(n, t.format(L=L), 'mut') for n, t in MUT]
    return out
