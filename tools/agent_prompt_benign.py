"""Prompt for a sub-agent that produces BEHAVIOUR-PRESERVING changes (to test that the checks raise no false alarm).
usage: agent_prompt_benign.py PROP N"""
import json, sys
pid = sys.argv[1]
n = sys.argv[2] if len(sys.argv) > 2 else '3'
for l in open('/verif/properties.jsonl'):
    p = json.loads(l)
    if p['id'] == pid:
        break
wt = f"/tmp/wb-{pid}"
print(f"""You are helping test a verification effort for the Python library scott-griffiths/bitstring (pure-Python bit containers Bits/BitArray/ConstBitStream/BitStream, pack/unpack, Array, exotic float codecs, built on the `bitarray` package).

You have your own scratch git worktree of the library at {wt} (a checkout of the repository; the package is in {wt}/bitstring, tests in {wt}/tests). Work ONLY inside {wt}. Do NOT read, list or touch /verif or /repo or any other /tmp/w* directory. There is no network.

Here is a semantic property the library satisfies:

  Title: {p['title']}
  Statement: {p['statement']}
  Quantified over: {p['quantifier']['text']}
  Code involved: {', '.join(p['anchors']['files'])}

Your task: produce {n} DIFFERENT, independent source changes to the code involved in this property that a maintainer might realistically make and that PRESERVE the property and all public behaviour: the library must behave, through its public API, exactly as before for every input (same results, same exception classes, same side effects on objects), the ENTIRE existing test suite must still pass, and the property must still hold. The point is to check that a verifier of the property does not raise false alarms on legitimate changes of the implementation, so make the changes NON-TRIVIAL and varied - things like:
  - restructuring a function (different control flow, early returns, loops rewritten, helper functions extracted or inlined);
  - replacing an algorithm by an equivalent one (e.g. a different but correct way to compute an index, a slice, an encoding, a search);
  - a CORRECT fast path or a CORRECT extra cache (with the right key and with copies where needed);
  - renaming private attributes / private helper functions / internal module-level names consistently (anything whose name starts with an underscore or that is not part of the documented public API), changing an internal data representation, changing internal cache sizes;
  - changing the wording of exception MESSAGES (but not exception classes), of docstrings and comments;
  - reordering independent checks where no input can tell the difference.
Do not change anything observable through the documented public API (return values, exception classes, repr/str text, pp output, stream positions, which objects are mutated). Touch only files under bitstring/. Each change should be substantial enough to be interesting (say 10-60 changed lines) but you must be confident it is behaviour-preserving; check it yourself with a differential script that runs a few thousand varied calls before and after and compares the results.

For each change i = 1..{n} deliver, under {wt}/benign/{pid}-b-<short-name>/ :
  - patch.diff : the change as a unified diff produced by `git diff` in the worktree (relative to the worktree HEAD, applicable with `git apply` from the repository root);
  - meta.json : {{"property": "{pid}", "summary": "...what was changed...", "why_equivalent": "...the argument that behaviour is unchanged...", "files": [...]}}.

How to work:
  - Run the test suite with:  cd {wt} && /venv/bin/python -m pytest -q -p no:cacheprovider -x -n 8     (about 25 s; 836 tests pass on the original). First verify that `cd {wt} && /venv/bin/python -c "import bitstring; print(bitstring.__file__)"` prints a path under {wt} (the worktree copy must be the one imported; run everything with cwd={wt}, and use PYTHONPATH={wt} if needed).
  - For each change: apply it, run the FULL test suite (it must pass completely), run your differential script, save `git diff -- bitstring > benign/.../patch.diff`, then `git checkout -- bitstring` to restore. Make sure the benign/ directory itself is never part of a patch.
  - Leave the worktree's bitstring/ directory restored to the original when you finish.

Finish with a short report listing each delivered directory with a one-line description.""")
