"""C04 - value isolation: immutable objects never change, mutable ones never share state (exhaustive small-heap histories).

world   = up to four named things: a (source bitstring), ext (external buffer a was built from), d (derived object), d2 (second hop)
history = CREATE a ; DERIVE d (; DERIVE d2) ; MUTATE one of them (; MUTATE again) ; RECREATE from the same string
oracle  = invariants only: every object that was not the target of the mutation still has its snapshot value (bin / hash),
          an immutable object never changes whatever is done, a re-created object equals the cold value.
Events are python source; the history is its own replay program.
"""
from __future__ import annotations

import array
import copy
import io
import itertools

from .. import core, bfs

PROPERTY = 'C04'
VACUITY = dict(need_ok=['mutate-a', 'mutate-d', 'mutate-ext', 'pseudo-mutate', 'recreate'], min_outcomes=50)
CLASSES = ('Bits', 'BitArray', 'ConstBitStream', 'BitStream')
MUTABLE = ('BitArray', 'BitStream')

CONTENTS = ['1011', '10110010', '101100100000000111']


def describe(tier):
    q = tier == 'quick'
    return dict(bounds=dict(contents=CONTENTS, source_routes=[c[0] for c in creations('Bits', '1011')], derive_routes=len(DERIVE),
                            mutations=len(MUTATE_BITS) + len(MUTATE_BA) + len(MUTATE_BYTES) + len(MUTATE_ARRAY),
                            hops='1 hop for every derive route; 2 hops for %s' % ('a 12-route core' if q else 'all pairs of routes'),
                            pseudo_mutation='every public attribute of Bits/ConstBitStream objects called with plausible arguments'),
                rule='all histories CREATE; DERIVE; [DERIVE;] MUTATE(any mutable member); [MUTATE;] RECREATE over the route/mutation alphabets, each '
                     'on a fresh world; non-trivial = the mutation succeeded and changed its target',
                assumptions=['verdict is behavioural (bin/len/hash re-read); buffer identity is never consulted',
                             'Array.data = x and arr.data are documented sharing and are not derive routes'])


def lit(bits):
    return '0b' + bits


def hexlit(bits):
    return '0x' + format(int(bits, 2), f'0{len(bits) // 4}x')


def creations(cls, bits):
    """(name, [source lines]) creating `a` (and possibly `ext`)."""
    by = int(bits + '0' * ((-len(bits)) % 8), 2).to_bytes((len(bits) + 7) // 8, 'big')
    out = [('str', [f"a = bitstring.{cls}({lit(bits)!r})"]),
           ('str-cached', [f"_w = bitstring.Bits({lit(bits)!r})", f"a = bitstring.{cls}({lit(bits)!r})"]),
           ('bin', [f"a = bitstring.{cls}(bin={bits!r})"]),
           ('fromstring', [f"a = bitstring.{cls}.fromstring({lit(bits)!r})"]),
           ('list', [f"a = bitstring.{cls}([int(c) for c in {bits!r}])"]),
           ('bytearray-kw', [f"ext = bytearray({by!r})", f"a = bitstring.{cls}(bytes=ext, length={len(bits)})"]),
           ('bitarray', [f"ext = bitarray.bitarray({bits!r})", f"a = bitstring.{cls}(ext)"]),
           ('bitarray-kw', [f"ext = bitarray.bitarray({bits!r})", f"a = bitstring.{cls}(bitarray=ext)"]),
           ('bits-kw-mutable', [f"ext = bitstring.BitArray(bin={bits!r})", f"a = bitstring.{cls}(bits=ext)"]),
           ('from-mutable', [f"ext = bitstring.BitStream(bin={bits!r})", f"a = bitstring.{cls}(ext)"]),
           ('pack', [f"a = bitstring.{cls}(bitstring.pack('bits', {lit(bits)!r}))"]),
           ('kw-uint', [f"a = bitstring.{cls}(uint={int(bits, 2)}, length={len(bits)})"]),
           ('kw-int', [f"a = bitstring.{cls}(int={int(bits, 2) - (1 << len(bits)) if bits[0] == '1' else int(bits, 2)}, length={len(bits)})"]),
           ('kw-bin', [f"a = bitstring.{cls}(bin={bits!r})"]), ('token-uint', [f"a = bitstring.{cls}('uint:{len(bits)}={int(bits, 2)}')"])]
    if len(bits) % 4 == 0:
        out.append(('hexstr', [f"a = bitstring.{cls}({hexlit(bits)!r})"]))
    if len(bits) % 8 == 0:
        le = int.from_bytes(int(bits, 2).to_bytes(len(bits) // 8, 'big'), 'little')
        out += [('kw-uintle', [f"a = bitstring.{cls}(uintle={le}, length={len(bits)})"]), ('kw-uintne-sized', [f"a = bitstring.{cls}(uintne{len(bits)}={le})"]),
                ('kw-bytes', [f"a = bitstring.{cls}(bytes={by!r})"])]
        out += [('bytearray', [f"ext = bytearray({by!r})", f"a = bitstring.{cls}(ext)"]),
                ('memoryview', [f"ext = bytearray({by!r})", f"a = bitstring.{cls}(memoryview(ext))"]),
                ('memoryview-readonly', [f"ext = bytearray({by!r})", f"a = bitstring.{cls}(memoryview(ext).toreadonly())"]),
                ('memoryview-readonly-window', [f"ext = bytearray({by + b'Z'!r})", f"a = bitstring.{cls}(memoryview(ext).toreadonly()[:-1])"]),
                ('memoryview-bytes-kw', [f"ext = bytearray({by!r})", f"a = bitstring.{cls}(bytes=memoryview(ext).toreadonly())"]),
                ('array', [f"ext = array.array('B', {by!r})", f"a = bitstring.{cls}(ext)"]),
                ('bytesio', [f"ext = bytearray({by!r})", f"a = bitstring.{cls}(io.BytesIO(ext))"])]
    return out


# derive routes: expression in terms of `a` (and CLS = target class name where it matters) giving `d`
DERIVE = [
    ('ctor', "bitstring.{T}(a)"), ('bits-kw', "bitstring.{T}(bits=a)"), ('auto-kw-copy', "bitstring.{T}(a[:])"),
    ('bits-prop', "a.bits"), ('copy.copy', "copy.copy(a)"), ('copy.deepcopy', "copy.deepcopy(a)"), ('pickle', "__import__('pickle').loads(__import__('pickle').dumps(a))"),
    ('deepcopy-in-list', "copy.deepcopy([a, a])[1]"), ('copy()', "a.copy()"), ('slice-all', "a[:]"), ('slice', "a[1:]"), ('slice-step', "a[::2]"),
    ('add-empty', "a + ''"), ('radd-empty', "'' + a"), ('empty-add', "bitstring.{T}() + a"), ('add-bits', "a + bitstring.Bits()"), ('mul1', "a * 1"),
    ('lshift0', "a << 0"), ('rshift0', "a >> 0"), ('and-self', "a & a"), ('or-self', "a | a"), ('xor-zeros', "a ^ bitstring.Bits(len(a))"), ('invert', "~a"),
    ('join1', "bitstring.{T}().join([a])"), ('join2', "bitstring.{T}().join([a, a])"), ('join-sep', "a.join(['0b1', '0b0'])"),
    ('fromstring', "bitstring.{T}.fromstring('0b' + a.bin)"), ('pack-bits', "bitstring.pack('bits', a)"), ('pack-kw', "bitstring.pack('x', x=a)"),
    ('pack-bitsn', "bitstring.pack(f'bits:{{len(a)}}', a)"), ('pack-two', "bitstring.pack('bits, bits', a, a)"), ('build', "bitstring.Dtype('bits').build(a)"),
    ('unpack-bits', "a.unpack('bits')[0]"), ('unpack-n', "a.unpack('bits:2, bits')[1]"), ('cut', "next(a.cut(len(a)))"), ('cut2', "list(a.cut(2))[0]"),
    ('split', "list(a.split('0b11'))[0]"), ('split-last', "list(a.split('0b1'))[-1]"), ('tobitarray', "a.tobitarray()"),
    ('array-data', "bitstring.Array('u2', a)"), ('array-slice', "bitstring.Array('u2', a)[:]"), ('array-copy', "copy.copy(bitstring.Array('u2', a))"),
    ('array-trailing', "bitstring.Array('u3', a).trailing_bits"), ('array-trailing-kw', "bitstring.Array('u2', trailing_bits=a)"),
    ('array-trailing-kw2', "bitstring.Array('u2', [1, 2], trailing_bits=a)"), ('array-extend', "(lambda x: (x.extend(bitstring.Array('u2', a)), x)[1])(bitstring.Array('u2'))"),
    ('array-data-set', "(lambda x: (setattr(x, 'data', bitstring.BitArray(a)), x)[1])(bitstring.Array('u2'))"), ('array-astype', "bitstring.Array('u2', a).astype('u4')"),
    ('bits-setter', "(lambda x: (setattr(x, 'bits', a), x)[1])(bitstring.{T}())"),
    ('append-to-empty', "(lambda x: (x.append(a), x)[1])(bitstring.BitArray())"), ('prepend-to-empty', "(lambda x: (x.prepend(a), x)[1])(bitstring.BitStream())"),
    ('iadd-to-empty', "(lambda x: x.__iadd__(a))(bitstring.BitArray())"), ('insert-into', "(lambda x: (x.insert(a, 0), x)[1])(bitstring.BitArray())"),
    ('overwrite-into', "(lambda x: (x.overwrite(a, 0), x)[1])(bitstring.BitArray(len(a)))"), ('setslice-into', "(lambda x: (x.__setitem__(slice(None), a), x)[1])(bitstring.BitArray('0b0'))"),
    ('replace-with', "(lambda x: (x.replace('0b1', a), x)[1])(bitstring.BitArray('0b1'))"),
    # a string equal to a's own text meeting an EMPTY mutable operand (the result must not be the cached parse of that string)
    ('str-radd-empty-stream', "(('0b' + a.bin) if len(a) else '') + bitstring.BitStream()"), ('str-radd-empty-array', "(('0b' + a.bin) if len(a) else '') + bitstring.BitArray()"),
    ('empty-array-add-str', "bitstring.BitArray() + (('0b' + a.bin) if len(a) else '')"), ('hexstr-radd-empty-stream', "(('0x' + a.hex) if len(a) % 4 == 0 and len(a) else '') + bitstring.BitStream()"),
    # an in-place operation on a mutable source that may REPLACE its store, then a derivation that trusts what the store says about itself
    ('premut-ilshift-all-ctor', "(a.__ilshift__(len(a)) if hasattr(a, 'append') and len(a) else None, bitstring.{T}(a))[1]"),
    ('premut-irshift-all-copy', "(a.__irshift__(len(a)) if hasattr(a, 'append') and len(a) else None, a.copy())[1]"),
    ('premut-imul1-ctor', "(a.__imul__(1) if hasattr(a, 'append') else None, bitstring.{T}(a))[1]"), ('premut-iand-self-ctor', "(a.__iand__(a) if hasattr(a, 'append') and len(a) else None, bitstring.{T}(a))[1]"),
    ('premut-clear-append-ctor', "(a.clear(), a.append('0b101'), bitstring.{T}(a))[2] if hasattr(a, 'append') else bitstring.{T}(a)"),
    ('premut-bits-setter-copy', "(setattr(a, 'bits', '0b1101'), copy.copy(a))[1] if hasattr(a, 'append') else copy.copy(a)"),
    ('premut-setslice-all-ctor', "(a.__setitem__(slice(None), '0b1101'), bitstring.{T}(a))[1] if hasattr(a, 'append') else bitstring.{T}(a)"),
    ('premut-reverse-slice', "(a.reverse(), a[:])[1] if hasattr(a, 'append') else a[:]"), ('premut-ior-zeros-ctor', "(a.__ior__(bitstring.Bits(len(a))) if hasattr(a, 'append') and len(a) else None, bitstring.{T}(a))[1]"),
    ('lsb0-append', "LSB0(lambda: (lambda x: (x.append(a), x)[1])(bitstring.BitArray()))"), ('lsb0-prepend', "LSB0(lambda: (lambda x: (x.prepend(a), x)[1])(bitstring.BitArray()))"),
    ('lsb0-array', "LSB0(lambda: bitstring.Array('u2', a))"),
]
STREAM_DERIVE = [
    ('read-n', "a.read(len(a))"), ('read-bits', "a.read(f'bits:{{len(a)}}')"), ('read-bits-rest', "a.read('bits')"), ('peek', "a.peek(len(a))"),
    ('readlist', "a.readlist('bits')[0]"), ('readto', "a.readto('0b11')"),
]

MUTATE_BITS = ["X.invert()", "X.append('0b1')", "X.prepend('0b0')", "X.insert('0b1', 1)", "X.overwrite('0b1', 0)", "X.clear()", "X.reverse()",
               "X <<= 1", "X &= bitstring.Bits(len(X))", "X *= 2", "X.set(0)", "X.set(1, 0)", "X.byteswap()", "X.replace('0b1', '0b00')", "X.uint = 0",
               "X.hex = 'f'", "X[0] = not X[0]", "del X[0]", "X.ror(1)", "X += '0b1'", "X ^= bitstring.Bits(bin='1' * len(X))", "X.bits = '0b1'"]
MUTATE_BA = ["X.invert()", "X.clear()", "X[0] ^= 1", "X.append(1)", "X.reverse()", "X.setall(0)"]
MUTATE_BYTES = ["X[0] ^= 0xff", "X[-1] = 0"]
MUTATE_ARRAY = ["X.append(1)", "X[0] = 3", "X.data.invert()", "X.reverse()", "X.pop()", "X += 1"]


def LSB0(thunk):
    bs = core.import_bitstring()
    bs.options.lsb0 = True
    try:
        return thunk()
    finally:
        bs.options.lsb0 = False


LSB0_SRC = '''def LSB0(thunk):
    bitstring.options.lsb0 = True
    try:
        return thunk()
    finally:
        bitstring.options.lsb0 = False
'''


def value_of(x):
    """Behavioural value of anything in the world."""
    bs = core.import_bitstring()
    import bitarray
    if isinstance(x, bs.Bits):
        h = None
        if type(x).__hash__ is not None:
            h = hash(x)
        return ('bits', x.bin, len(x), h)
    if isinstance(x, bitarray.bitarray):
        return ('bitarray', x.to01())
    if isinstance(x, (bytearray, bytes)):
        return ('bytes', bytes(x).hex())
    if isinstance(x, array.array):
        return ('array', x.tobytes().hex())
    if isinstance(x, bs.Array):
        return ('Array', str(x.dtype), x.data.bin)
    if isinstance(x, (list, tuple)):
        return tuple(value_of(i) for i in x)
    return ('other', repr(x))


def mutations_for(x):
    bs = core.import_bitstring()
    import bitarray
    if isinstance(x, (bs.BitArray,)):
        return MUTATE_BITS
    if isinstance(x, bitarray.bitarray):
        return MUTATE_BA
    if isinstance(x, bytearray):
        return MUTATE_BYTES
    if isinstance(x, array.array):
        return MUTATE_BYTES[:1]
    if isinstance(x, bs.Array):
        return MUTATE_ARRAY
    return []


def namespace(bs):
    import bitarray
    return dict(bitstring=bs, bitarray=bitarray, array=array, copy=copy, io=io, LSB0=LSB0)


def shards(tier, seed):
    out = []
    for cls in CLASSES:
        for bits in CONTENTS:
            for cname, _ in creations(cls, bits):
                out.append(dict(kind='hist', cls=cls, bits=bits, creation=cname))
    for cls in ('Bits', 'ConstBitStream'):
        out.append(dict(kind='pseudo', cls=cls))
    return out


def run_shard(shard, acc):
    bs = core.import_bitstring()
    with core.watchdog(1500):
        if shard['kind'] == 'pseudo':
            pseudo_mutate(bs, acc, shard['cls'])
        else:
            histories(bs, acc, shard)


def exec_lines(ns, lines):
    for ln in lines:
        r = bfs.run_src(ns, ln)
        if r[0] == 'exc':
            return r
    return ('ok', None)


def histories(bs, acc, shard):
    cls, bits = shard['cls'], shard['bits']
    create = dict(creations(cls, bits))[shard['creation']]
    q = acc.tier == 'quick'
    derive = list(DERIVE) + (list(STREAM_DERIVE) if cls in ('ConstBitStream', 'BitStream') else [])
    core2 = ['ctor', 'copy()', 'slice-all', 'add-empty', 'bits-kw', 'fromstring', 'pack-bits', 'tobitarray', 'array-data', 'bits-setter', 'empty-add', 'join1']
    for (dname, dtmpl), T in itertools.product(derive, CLASSES):
        if '{T}' not in dtmpl and T != 'Bits':
            continue
        dsrc = dtmpl.format(T=T)
        hops = [None]
        if len(bits) <= 8 or not q:
            hops += [(n, t) for n, t in DERIVE if (n in core2 or not q) and '{T}' not in t] + [(n + ':' + T2, t.format(T=T2)) for n, t in DERIVE if n in core2 and '{T}' in t for T2 in (('BitArray', 'Bits') if q else CLASSES)]
        for hop in hops:
            base = list(create) + [f"d = {dsrc}"]
            if hop is not None:
                base.append("d2 = " + _sub(hop[1], 'd'))
            # build once to see what exists and which members are mutable
            core.reset_world()
            ns = namespace(bs)
            r = exec_lines(ns, base)
            if r[0] == 'exc':
                acc.step('derive', 1, rej=1)
                continue
            members = [k for k in ('a', 'ext', 'd', 'd2') if k in ns]
            acc.state((cls, bits, shard['creation'], dname, T, hop[0] if hop else None))
            # a derivation from a MUTABLE object hands back a distinct object (the same object under two names is the extreme case of shared state)
            for x, y in (('a', 'd'), ('d', 'd2'), ('a', 'd2')):
                if x in ns and y in ns and ns[x] is ns[y] and isinstance(ns[x], bs.BitArray):
                    acc.step('derive', 1, nontrivial=1, ok=1)
                    acc.violation('derive', 'state', dict(cls=cls, bits=bits, creation=shard['creation'], derive=dname, T=T, hop=hop[0] if hop else None, same=[x, y], group=f"same-object|{dname if y == 'd' else (hop[0] if hop else '')}"),
                                  '\n'.join(["import bitstring, bitarray, array, copy, io", LSB0_SRC] + base + [f"assert {y} is not {x}"]), 'a new object', f'{y} is {x}')
            for target in members:
                muts = mutations_for(ns[target])
                if hop is not None and q:
                    muts = muts[:3]
                for m in muts:
                    one_history(bs, acc, shard, base, members, target, m, dname, T, hop)


def _sub(tmpl, var):
    """Rewrite a derive template written in terms of `a` to use another variable."""
    import re
    return re.sub(r'\ba\b', var, tmpl)


def one_history(bs, acc, shard, base, members, target, m, dname, T, hop):
    core.reset_world()
    ns = namespace(bs)
    if exec_lines(ns, base)[0] == 'exc':
        return
    # objects that are the very same object as the target are not "another object"
    others = [k for k in members if k != target and ns[k] is not ns[target]]
    # a list/tuple value holding the target itself
    before = {k: value_of(ns[k]) for k in others}
    tb = value_of(ns[target])
    msrc = m.replace('X', target)
    r = bfs.run_src(ns, msrc)
    changed = value_of(ns[target]) != tb
    op = 'mutate-' + ('ext' if target == 'ext' else 'a' if target == 'a' else 'd')
    acc.step(op, 1, nontrivial=int(r[0] == 'ok' and changed), ok=int(r[0] == 'ok'), rej=int(r[0] != 'ok'))
    bad = [k for k in others if value_of(ns[k]) != before[k]]
    detail = dict(cls=shard['cls'], bits=shard['bits'], creation=shard['creation'], derive=dname, T=T, hop=hop[0] if hop else None, mutated=target, mutation=m,
                  group=f"{shard['creation'] if target == 'ext' else dname}")
    if bad:
        k = bad[0]
        acc.violation(op, 'frame', dict(detail, changed=k), hist_snippet(base, msrc, others), {x: before[x][:2] for x in bad}, {x: value_of(ns[x])[:2] for x in bad})
    acc.outcome((op, r[0], changed, bool(bad)))
    # RECREATE: running the creation recipe again must still give the cold value (a memoised store handed to a mutable owner would show)
    if target in ('a', 'd', 'd2') and r[0] == 'ok' and changed and m in MUTATE_BITS[:2]:
        ns2 = namespace(bs)
        create_only = [ln for ln in base if not ln.startswith(('d = ', 'd2 = '))]
        if exec_lines(ns2, create_only)[0] == 'ok':
            acc.step('recreate', 1, nontrivial=1, ok=1)
            if ns2['a'].bin != shard['bits']:
                acc.violation('recreate', 'value', dict(detail, what='creation recipe'), hist_snippet(base, msrc, [], extra=create_only + [f"assert a.bin == {shard['bits']!r}, a.bin"]), shard['bits'], ns2['a'].bin)
    # RECREATE: the same string must still give the cold value
    if shard['creation'] in ('str', 'str-cached', 'hexstr', 'fromstring', 'pack') or dname in ('fromstring', 'pack-bits', 'add-empty'):
        for s in (lit(shard['bits']), hexlit(shard['bits']) if len(shard['bits']) % 4 == 0 else None, '0b1', ''):
            if s is None:
                continue
            exp = bin(int(s, 16))[2:].zfill(4 * (len(s) - 2)) if s.startswith('0x') else s[2:]
            got = bs.Bits(s).bin
            acc.step('recreate', 1, nontrivial=1, ok=1)
            if got != exp:
                acc.violation('recreate', 'value', dict(detail, string=s), hist_snippet(base, msrc, [], extra=[f"assert bitstring.Bits({s!r}).bin == {exp!r}, bitstring.Bits({s!r}).bin"]), exp, got)
    if len(acc.samples) < 3 and r[0] == 'ok' and changed:
        acc.sample(dict(history=base + [msrc], checked=others))


def hist_snippet(base, msrc, others, extra=()):
    lines = ["import bitstring, bitarray, array, copy, io", LSB0_SRC, VALUE_SRC] + list(base)
    lines += [f"before = {{k: value(v) for k, v in dict({', '.join(f'{k}={k}' for k in others)}).items()}}"]
    lines += ["try:", f"    {msrc}", "except Exception:", "    pass"]
    lines += [f"after = {{k: value(v) for k, v in dict({', '.join(f'{k}={k}' for k in others)}).items()}}", "assert before == after, (before, after)"]
    lines += list(extra)
    return '\n'.join(lines)


VALUE_SRC = '''def value(x):
    if isinstance(x, bitstring.Bits): return ('bits', x.bin, hash(x) if type(x).__hash__ else None)
    if isinstance(x, bitarray.bitarray): return x.to01()
    if isinstance(x, (bytes, bytearray)): return bytes(x)
    if isinstance(x, array.array): return x.tobytes()
    if isinstance(x, bitstring.Array): return (str(x.dtype), x.data.bin)
    if isinstance(x, (list, tuple)): return tuple(value(i) for i in x)
    return repr(x)
'''

ARGSETS = [(), ('0b1',), ('0b1', 0), (0,), (1, 0), (1,), ('0b1', '0b0'), ([0],), (1, [0]), ('u1',), (2,), ('0b11', 1), (None,), (0, 1), ('bits',)]


def pseudo_mutate(bs, acc, cls):
    """Immutable classes expose no operation that alters their own content: call everything public and re-read."""
    klass = getattr(bs, cls)
    for bits in CONTENTS + ['']:
        for cname, create in creations(cls, bits) if bits else [('bin', [f"a = bitstring.{cls}(bin='')"])]:
            core.reset_world()
            ns = namespace(bs)
            if exec_lines(ns, create)[0] == 'exc':
                continue
            a = ns['a']
            snap = (a.bin, len(a), hash(a))
            names = [n for n in dir(a) if not n.startswith('_')] + ['__iadd__', '__imul__', '__ilshift__', '__irshift__', '__iand__', '__ior__', '__ixor__',
                                                                     '__setitem__', '__delitem__', '__init__']
            acc.state((cls, bits, cname))
            for n in names:
                try:
                    attr = getattr(a, n)
                except Exception:  # noqa: BLE001
                    acc.step('pseudo-mutate', 1, rej=1)
                    continue
                calls = ARGSETS if callable(attr) else [None]
                for args in calls:
                    if n == 'tofile' or (n in ('__mul__', '__rmul__', '__imul__') and args and isinstance(args[0], int) and args[0] > 100):
                        continue
                    if n == 'pp':
                        args_src = f"{', '.join(map(repr, args))}{', ' if args else ''}stream=io.StringIO()" if args is not None else ''
                    else:
                        args_src = ', '.join(map(repr, args)) if args is not None else ''
                    src = f"a.{n}({args_src})" if args is not None else f"a.{n}"
                    if args is None:
                        # also try assigning to the attribute
                        srcs = [src, f"a.{n} = 1", f"a.{n} = '0b1'"]
                    else:
                        srcs = [src]
                    for sc in srcs:
                        with core.watchdog(10):
                            r = bfs.run_src(ns, sc)
                        if r[0] == 'ok' and hasattr(r[1], '__next__'):
                            try:
                                list(itertools.islice(r[1], 50))
                            except Exception:  # noqa: BLE001
                                pass
                        a2 = ns['a']
                        acc.step('pseudo-mutate', 1, nontrivial=int(r[0] == 'ok'), ok=int(r[0] == 'ok'), rej=int(r[0] != 'ok'))
                        now = (a.bin, len(a), hash(a))
                        if now != snap:
                            acc.violation('pseudo-mutate', 'frame', dict(cls=cls, bits=bits, creation=cname, call=sc, group=n),
                                          '\n'.join(["import bitstring, bitarray, array, copy, io"] + create + ["b = a", "snap = (a.bin, len(a), hash(a))", "try:", f"    {sc}",
                                                                                                          "except Exception:", "    pass", "assert (b.bin, len(b), hash(b)) == snap, (b.bin, snap)"]),
                                          snap, now)
                            # restore a fresh object so one defect is not reported for every later call
                            core.reset_world()
                            ns = namespace(bs)
                            exec_lines(ns, create)
                            a = ns['a']
                            snap = (a.bin, len(a), hash(a))
                        elif a2 is not a:
                            ns['a'] = a
                        if cls == 'ConstBitStream':
                            try:
                                a.pos = 0
                            except Exception:  # noqa: BLE001
                                pass
            acc.outcome(('pseudo', cls, bits, cname))
    acc.sample(dict(event=f"every public attribute of a {cls} called with {len(ARGSETS)} argument tuples; (bin, len, hash) re-read after each"))
