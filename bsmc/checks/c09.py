"""C09 - construction and parsing are pure: results never depend on call history.

state   = (option triple, which calls have been made under which options since the caches were last cold)
history = [SET o1 ; CALL A ; X ; SET o2 ; CALL B]  for every ordered pair of calls (A, B) of the alphabet, every pair of option
          configurations in the tier's menu and every interposed action X in {nothing, mutate A's result, flood one LRU cache past
          its real maxsize}; thorough adds a third call.
oracle  = the cold table: the observation of B made with every cache cleared immediately before it, under the same options.
"""
from __future__ import annotations

import itertools

from .. import core, bfs

PROPERTY = 'C09'
VACUITY = dict(need_ok=['call', 'first-use'], min_outcomes=40)

OPTS = [(l, b, m) for l in (False, True) for b in (False, True) for m in ('saturate', 'overflow')]

# the call alphabet: (id, source). `R` = result of the previous call in the namespace (for MUTATE).
CALLS = [
    ('c-hex', "bitstring.Bits('0xf')"), ('c-two', "bitstring.BitStream('0b1, 0x0')"), ('c-u8', "bitstring.Bits('u8=3')"), ('c-ue', "bitstring.BitArray('ue=3')"),
    ('c-sie', "bitstring.Bits('sie=-2')"), ('c-e4m3', "bitstring.Bits('e4m3mxfp=1000')"), ('c-e5m2', "bitstring.BitStream('e5m2mxfp=1e6')"),
    ('c-e5m2inf', "bitstring.Bits('e5m2mxfp=inf')"), ('c-f16', "bitstring.Bits('float16=0.1')"), ('c-rep', "bitstring.BitArray('2*(u4=1, 0b1)')"),
    ('c-bitstok', "bitstring.Bits('bits=0x3a5, 0b1')"), ('c-3a5', "bitstring.BitArray('0x3a5')"), ('c-bad', "bitstring.Bits('hex:8=f')"),
    ('c-fromstring', "bitstring.BitArray.fromstring('0xf')"), ('c-ws', "bitstring.Bits('0x f')"), ('c-uie-kw', "bitstring.Bits(uie=3)"),
    ('c-e4m3-kw', "bitstring.Bits(e4m3mxfp=1000.0)"), ('c-uintle-kw', "bitstring.BitArray(uintle=258, length=16)"), ('c-intne-kw', "bitstring.BitStream(intne16=-2)"),
    ('c-float-kw', "bitstring.BitArray(float=0.5, length=32)"), ('c-floatle-kw', "bitstring.BitArray(floatle=-0.0, length=16)"), ('c-float0-kw', "bitstring.BitStream(float=0.0, length=16)"),
    ('c-hex-kw', "bitstring.BitArray(hex='ff')"), ('c-int-kw', "bitstring.BitArray(int=-3, length=7)"), ('c-bfloat-kw', "bitstring.BitArray(bfloat=1.5)"), ('c-ue-kw', "bitstring.BitArray(ue=0)"), ('c-append', "(lambda x: (x.append('0xf'), x)[1])(bitstring.BitArray('0b1'))"),
    ('p-u8', "bitstring.pack('u8', 5)"), ('p-list', "bitstring.pack(['u8', 'u4', 'bool'], 5, 3, True)"), ('p-n8', "bitstring.pack('u:n', 3, n=8)"),
    ('p-n9', "bitstring.pack('u:n', 3, n=9)"), ('p-e4m3', "bitstring.pack('e4m3mxfp', 1000.0)"), ('p-ue', "bitstring.pack('ue', 3)"),
    ('p-rep', "bitstring.pack('2*u4', 1, 2)"), ('p-struct', "bitstring.pack('<h', 3)"), ('p-bits', "bitstring.pack('bits', '0xf')"),
    ('p-kwval', "bitstring.pack('u8=a, u4=b', a=1, b=2)"), ('p-kwval2', "bitstring.pack('u8=a, u4=b', a=3, b=4)"), ('p-lsb', "bitstring.pack('u4, u8', 1, 2)"),
    ('u-n8', "bitstring.Bits('0x0f3a').unpack('u:n, hex', n=8)"), ('u-n4', "bitstring.Bits('0x0f3a').unpack('u:n, hex', n=4)"),
    ('u-rep', "bitstring.BitStream('0x0f3a').readlist('2*u4')"), ('u-struct', "bitstring.Bits('0x0f3a').unpack('<H')"), ('u-ue', "bitstring.Bits('0b00100').unpack('ue')"),
    ('r-bits', "bitstring.ConstBitStream('0x0f3a').read('bits:4')"), ('r-e4m3', "bitstring.ConstBitStream('0x7e').read('e4m3mxfp')"),
    ('d-u8', "DT(bitstring.Dtype('u8'))"), ('d-u8s2', "DT(bitstring.Dtype('u8', scale=2))"), ('d-u8s2f', "DT(bitstring.Dtype('u8', scale=2.0))"),
    ('d-u-8', "DT(bitstring.Dtype('u', 8))"), ('d-u-8s2', "DT(bitstring.Dtype('u', 8, scale=2))"), ('d-u-8s2f', "DT(bitstring.Dtype('u', 8, scale=2.0))"),
    ('d-e4m3', "DT(bitstring.Dtype('e4m3mxfp'))"), ('d-f16s', "DT(bitstring.Dtype('float16', scale=0.5))"), ('d-f16', "DT(bitstring.Dtype('float16'))"),
    ('d-build-e5m2', "bitstring.Dtype('e5m2mxfp').build(1e6)"), ('d-str', "str(bitstring.Dtype('u8', scale=4))"),
    ('a-auto', "bitstring.Array(bitstring.Dtype('e4m3mxfp', scale='auto'), [100.0, 2.0]).tolist()"),
    ('a-add1', "AR(bitstring.Array(bitstring.Dtype('u8', scale=4), [8]) + bitstring.Array(bitstring.Dtype('u8', scale=2), [4]))"),
    ('a-add2', "AR(bitstring.Array(bitstring.Dtype('u8', scale=32), [32]) + bitstring.Array(bitstring.Dtype('u8', scale=8), [64]))"),
    ('a-addi', "AR(bitstring.Array('u8', [1]) + bitstring.Array('i8', [-1]))"), ('a-u8', "AR(bitstring.Array('u8', [1, 2]))"),
    # Arrays built from strings (initializer and trailing_bits), returned un-canonicalised so that MUTATE can reach them
    ('a-trail', "bitstring.Array('uint8', trailing_bits='0x0a0b')"), ('a-init-str', "bitstring.Array('uint4', bitstring.Bits('0x3a5'))"),
    # values that compare (and hash) equal but encode differently: a memo keyed on the value would conflate them
    ('c-f32+0', "bitstring.Bits(float=0.0, length=32)"), ('c-f32-0', "bitstring.Bits(float=-0.0, length=32)"),
    ('c-f16-0str', "bitstring.BitArray('float16=-0.0')"), ('c-f16+0str', "bitstring.BitArray('float16=0.0')"),
    ('p-f64-0', "bitstring.pack('floatle64', -0.0)"), ('p-f64+0', "bitstring.pack('floatle64', 0.0)"),
    # auto-scaling reads a lazily built class-level table
    ('a-auto-e3m2', "bitstring.Array(bitstring.Dtype('e3m2mxfp', scale='auto'), [100.0, 2.0]).tolist()"),
    ('a-auto-e5m2', "bitstring.Array(bitstring.Dtype('e5m2mxfp', scale='auto'), [1e6, 2.0]).tolist()"),
    # a Dtype made from an existing (cached, shared) Dtype object with a new scale must not touch that object
    ('d-rescale', "DT(bitstring.Dtype(bitstring.Dtype('int12'), scale=4))"), ('d-int12', "DT(bitstring.Dtype('int12'))"), ('c-int12', "bitstring.Bits('int12=12')"),
    ('p-int12', "bitstring.pack('int:12', 12)"),
    # option-sensitive tokens that are not at the start of the string
    ('c-lit-e4m3', "bitstring.Bits('0b1, e4m3mxfp=1000.0')"), ('c-sp-e4m3', "bitstring.Bits(' e4m3mxfp = 1000.0')"), ('c-rep-e5m2', "bitstring.BitArray('2*(e5m2mxfp8=-1e6)')"),
    # an option-sensitive token nested inside the value of a bits token
    ('c-nested-e4m3', "bitstring.Bits('bits=e4m3mxfp=1e9')"), ('c-nested-e5m2', "bitstring.BitArray('bits:8=e5m2mxfp=1e9, 0b1')"),
    # an Array built from an Array that an EARLIER call returned (R), or from an equal fresh one when there is none: after a flood of the Dtype
    # caches the two Arrays no longer share a Dtype object
    ('a-from-R', "AR(bitstring.Array('uint8', R if isinstance(globals().get('R'), bitstring.Array) and str(R.dtype) == 'uint8' and R.data.hex == '0a0b' else bitstring.Array('uint8', trailing_bits='0x0a0b')))"),
    # pretty-printing with a two-token struct format, then the same format string in unpack / pack
    ('a-pp-struct', "(lambda o: (bitstring.Array('<h', [1, 2]).pp('<hH', stream=o), len(o.getvalue()) > 0)[1])(__import__('io').StringIO())"),
    ('u-struct2', "bitstring.Bits('0x0f3a0102').unpack('<hH')"), ('p-struct2', "bitstring.pack('<hH', -2, 7)"),
    # whitespace is removed from a token string before parsing - also from inside a dtype name
    ('c-split-name-e5m2', "bitstring.Bits('e5m2m xfp=1e6')"), ('c-split-name-e4m3', "bitstring.BitArray('e4 m3mxfp = 1000')"),
    ('a-trail2', "bitstring.Array('uint4', [1], trailing_bits='0b1')"), ('c-0a0b', "bitstring.Bits('0x0a0b')"), ('c-0b1', "bitstring.ConstBitStream('0b1')"),
]
CALL_SRC = dict(CALLS)

MUTATIONS = ["R.append('0b1')", "R.invert()", "R.clear()", "R[0].invert()", "R.data.invert()", "R.tobitarray().clear()", "R.append(7)", "R.__setitem__(0, 1)"]

FLOODS = {
    'str': "[bitstring.Bits('0x%04x' % i) for i in range({n})]",
    # the fresh keys are chosen away from every key the call alphabet uses: touching a key would refresh it instead of evicting it
    'token': "[bitstring.pack('u%d' % (i + 1000), 0) for i in range({n})]",
    'dtype': "[bitstring.Dtype('u%d' % (i + 1000)) for i in range({n})]",
    'unpack': "[bitstring.Bits(1300).unpack('u%d' % (i + 1000)) for i in range({n})]",
    'dtype-scale': "[bitstring.Dtype('u9', scale=i + 3) for i in range({n})]",
}


def describe(tier):
    q = tier == 'quick'
    return dict(bounds=dict(calls=len(CALLS), option_pairs='all (o1, o2) differing in at most one option (32 pairs)' if q else 'all 64 pairs',
                            interposed=['nothing'] + MUTATIONS + [f'FLOOD {k} with maxsize+1 fresh keys' for k in FLOODS],
                            shape='SET o1; CALL A; X; SET o2; CALL B' + ('' if q else '; and SET o1; A; SET o2; B; SET o3; C over a 14-call core'),
                            first_use='SET o1; CALL A as the first call of a pristine process; then CLEAR-CACHES; SET o2; CALL B for all 8 x 8 option pairs and all B',
                            cache_maxsize='read from cache_info() at run time'),
                rule='every history of the stated shape over the alphabets is run once on cold caches; the final call is compared with the cold table '
                     '(same call and options evaluated as the only call of a forked pristine process); non-trivial = B is preceded by a successful A that differs from B or by an option change / '
                     'mutation / flood',
                assumptions=['the cold table is computed by the same implementation in a process that has made no other call: absolute values are judged by other checks',
                             'histories of the main pass share a process (LRU caches cleared in between); state kept outside the LRU caches is covered by the first-use histories',
                             'options are reset and every cache cleared before each history'])


def shards(tier, seed):
    if not _cold:
        precompute(core.import_bitstring(), dict(bitstring=core.import_bitstring(), DT=DT, AR=AR))
    out = []
    for ia in range(len(CALLS)):
        out.append(dict(kind='pairs', a=ia))
    if tier == 'thorough':
        for ia in range(14):
            out.append(dict(kind='triples', a=ia))
    return out


def canon(v):
    bs = core.import_bitstring()
    if isinstance(v, bs.Bits):
        return ('bits', type(v).__name__, v.bin)
    if isinstance(v, float):
        return ('f', 'nan' if v != v else v.hex())
    if isinstance(v, int) and not isinstance(v, bool):
        return ('i', v)
    if isinstance(v, (list, tuple)):
        return tuple(canon(x) for x in v)
    if isinstance(v, (str, bool, bytes)) or v is None:
        return v
    if isinstance(v, bs.Array):
        return ('Array', str(v.dtype), v.data.bin)
    return ('obj', type(v).__name__, repr(v))


def DT(d):
    """Observation of a Dtype: repr, scale and its type, and the value and *type* of a parse and a build."""
    bs = core.import_bitstring()
    n = d.bitlength or 8
    probe = bs.Bits(uint=4, length=n)
    try:
        pv = d.parse(probe)
        p = (type(pv).__name__, canon(pv))
    except Exception as e:  # noqa: BLE001
        p = ('exc', type(e).__name__)
    try:
        b = d.build(8).bin
    except Exception as e:  # noqa: BLE001
        b = ('exc', type(e).__name__)
    return (repr(d), type(d.scale).__name__, p, b)


def AR(a):
    return (str(a.dtype), type(a.dtype.scale).__name__, tuple(canon(x) for x in a.tolist()), a.data.bin)


HELPERS_SRC = '''
def canon(v):
    if isinstance(v, bitstring.Bits): return ('bits', type(v).__name__, v.bin)
    if isinstance(v, float): return ('f', 'nan' if v != v else v.hex())
    if isinstance(v, int) and not isinstance(v, bool): return ('i', v)
    if isinstance(v, (list, tuple)): return tuple(canon(x) for x in v)
    if isinstance(v, (str, bool, bytes)) or v is None: return v
    if isinstance(v, bitstring.Array): return ('Array', str(v.dtype), v.data.bin)
    return ('obj', type(v).__name__, repr(v))
def DT(d):
    n = d.bitlength or 8
    probe = bitstring.Bits(uint=4, length=n)
    try:
        pv = d.parse(probe); p = (type(pv).__name__, canon(pv))
    except Exception as e: p = ('exc', type(e).__name__)
    try: b = d.build(8).bin
    except Exception as e: b = ('exc', type(e).__name__)
    return (repr(d), type(d.scale).__name__, p, b)
def AR(a):
    return (str(a.dtype), type(a.dtype.scale).__name__, tuple(canon(x) for x in a.tolist()), a.data.bin)
def OBS(thunk):
    try: return ('ok', canon(thunk()))
    except Exception as e: return ('exc', type(e).__name__)
def SET(o):
    bitstring.options.lsb0, bitstring.options.bytealigned, bitstring.options.mxfp_overflow = o
def COLD():
    import sys, functools
    for name, mod in list(sys.modules.items()):
        if name == 'bitstring' or name.startswith('bitstring.'):
            for v in list(vars(mod).values()):
                cands = [v] + ([getattr(x, '__func__', x) for x in vars(v).values()] if isinstance(v, type) else [])
                for c in cands:
                    if hasattr(c, 'cache_clear'): c.cache_clear()
'''


def call(ns, src):
    r = bfs.run_src(ns, src)
    if r[0] == 'ok':
        ns['R'] = r[1]
        return ('ok', canon(r[1]))
    return r


_cold = {}


def cold(bs, ns, cid, opts):
    k = (cid, opts)
    if k not in _cold:
        core.clear_caches()
        core.set_options(*opts)
        _cold[k] = call(dict(ns), CALL_SRC[cid])
        core.clear_caches()
    return _cold[k]


def maxsizes():
    return {q: c.cache_info().maxsize for q, c in core.find_caches()}


def run_shard(shard, acc):
    bs = core.import_bitstring()
    ns0 = dict(bitstring=bs, DT=DT, AR=AR)
    q = acc.tier == 'quick'
    ms = max([m for m in maxsizes().values() if m] or [256])
    opt_pairs = [(o1, o2) for o1 in OPTS for o2 in OPTS if (not q) or sum(x != y for x, y in zip(o1, o2)) <= 1]
    inter = [('none', None)] + [('mutate', m) for m in MUTATIONS] + [('flood', k) for k in FLOODS]
    ida, asrc = CALLS[shard['a']]
    if not _cold:
        precompute(bs, ns0)       # normally inherited from the parent (shards()); a stand-alone shard replay computes it here
    with core.watchdog(3000):
        if shard['kind'] == 'pairs':
            first_use(bs, acc, ns0, ida, ms)
            for (idb, bsrc) in CALLS:
                for (o1, o2) in opt_pairs:
                    for xk, xv in inter:
                        if xk == 'flood' and (o1 != o2 or (q and OPTS.index(o1) not in (0, 7))):
                            continue      # floods are slow: only without an option change; quick: two option settings
                        if xk == 'mutate' and o1 != o2 and q and xv not in MUTATIONS[:2]:
                            continue
                        hist = [('set', o1), ('call', ida), (xk, xv), ('set', o2), ('call', idb)]
                        run_history(bs, acc, ns0, hist, ms)
        else:
            core14 = [c for c in CALLS if c[0] in ('c-hex', 'c-two', 'c-ue', 'c-e4m3', 'c-bitstok', 'c-3a5', 'p-list', 'p-u8', 'p-n8', 'p-n9', 'u-n8', 'u-n4', 'd-u8s2', 'd-u8s2f')]
            ida = core14[shard['a']][0]
            some_opts = [OPTS[0], OPTS[1], OPTS[4]]
            for (idb, _), (idc, _) in itertools.product(core14, core14):
                for o1, o2, o3 in itertools.product(some_opts, repeat=3):
                    hist = [('set', o1), ('call', ida), ('set', o2), ('call', idb), ('set', o3), ('call', idc)]
                    run_history(bs, acc, ns0, hist, ms)
    core.reset_world()


def _in_fork(fn):
    """Run fn() in a forked copy of this process and return its (picklable) result."""
    import os
    import pickle
    r, w = os.pipe()
    pid = os.fork()
    if pid == 0:
        code = 1
        try:
            os.close(r)
            data = pickle.dumps(fn())
            with os.fdopen(w, 'wb') as f:
                f.write(data)
            code = 0
        finally:
            os._exit(code)
    os.close(w)
    with os.fdopen(r, 'rb') as f:
        data = f.read()
    _, st = os.waitpid(pid, 0)
    if st != 0 or not data:
        raise RuntimeError(f"forked evaluation failed (status {st})")
    return pickle.loads(data)


def first_use(bs, acc, ns0, ida, ms):
    """Histories  SET o1; CALL A  made as the very first call of a process (a forked copy of this still-pristine one), followed by
    every  CLEAR-CACHES; SET o2; CALL B : whatever A built lazily outside the LRU caches (module- or class-level tables) under o1
    is what B then reads.  The oracle is the pristine cold table."""
    warm = [q for q, c in core.find_caches() if c.cache_info().currsize]
    if warm:
        raise RuntimeError(f"first-use histories need a pristine process: {warm}")

    def child(o1):
        bad = []
        n = 0
        core.set_options(*o1)
        call(dict(ns0), CALL_SRC[ida])
        for o2 in OPTS:
            for idb, bsrc in CALLS:
                core.clear_caches()
                core.set_options(*o2)
                got = call(dict(ns0), bsrc)
                n += 1
                if got != _cold[(idb, o2)]:
                    bad.append((o2, idb, got))
        return n, bad

    for o1 in OPTS:
        n, bad = _in_fork(lambda: child(o1))
        acc.step('call', n, nontrivial=n, ok=n)
        acc.step('first-use', n, nontrivial=n, ok=n)
        acc.state(('first-use', ida, o1))
        for o2, idb, got in bad:
            hist = [('set', o1), ('call', ida), ('cold', None), ('set', o2), ('call', idb)]
            exp = _cold[(idb, o2)]
            acc.violation('call', 'value' if got[0] == exp[0] else 'exc',
                          dict(history=[(a, list(b) if isinstance(b, tuple) else b) for a, b in hist], call=idb, options=list(o2), group=f"{idb}|first-use"),
                          snippet(hist, ms, exp), exp, got)


def run_history(bs, acc, ns0, hist, ms):
    core.reset_world()
    ns = dict(ns0)
    opts = OPTS[0]
    last = None
    trivial = True
    made = []
    for i, (k, v) in enumerate(hist):
        final = i == len(hist) - 1
        if k == 'set':
            if v != opts:
                trivial = False
            opts = v
            core.set_options(*v)
        elif k == 'call':
            got = call(ns, CALL_SRC[v])
            exp = cold_lookup(bs, ns0, v, opts, ns)
            acc.step('call', 1, nontrivial=int(bool(made) or opts != OPTS[0]), ok=int(exp[0] == 'ok'), rej=int(exp[0] != 'ok'))
            acc.outcome((v, opts, exp if len(repr(exp)) < 100 else hash(repr(exp))))
            if got != exp:
                acc.violation('call', 'value' if got[0] == exp[0] else 'exc',
                              dict(history=[(a, list(b) if isinstance(b, tuple) else b) for a, b in hist[:i + 1]], call=v, options=list(opts),
                                   group=f"{v}|{classify(hist[:i + 1])}"),
                              snippet(hist[:i + 1], ms, exp), exp, got)
                return
            made.append(v)
            trivial = False
        elif k == 'mutate':
            r = bfs.run_src(ns, v)
            if r[0] == 'ok':
                trivial = False
            acc.step('mutate', 1, nontrivial=int(r[0] == 'ok'), ok=int(r[0] == 'ok'), rej=int(r[0] != 'ok'))
        elif k == 'flood':
            r = bfs.run_src(ns, FLOODS[v].format(n=ms + 1))
            trivial = False
            acc.step('flood', 1, nontrivial=1, ok=1)
    acc.state((tuple(made), opts, hist[2][0] if len(hist) > 2 else None))
    if len(acc.samples) < 3 and not trivial:
        acc.sample(dict(history=[(a, list(b) if isinstance(b, tuple) else b) for a, b in hist]))
    if core.get_options() != opts:
        acc.violation('options', 'invariant', dict(history=str(hist), group='options-changed'), "# module options changed by a call\nassert False", opts, core.get_options())


def cold_lookup(bs, ns0, cid, opts, ns):
    """Cold value of a call (see precompute)."""
    return _cold[(cid, opts)]


def precompute(bs, ns0):
    """The cold table: every (call, options) evaluated in its own forked copy of this process, taken while the process is
    pristine - bitstring imported, no call made yet - so that neither an LRU cache nor a lazily built module- or class-level
    table has been touched by any earlier call.  Must run before the first history of the process."""
    import os
    import pickle
    warm = [q for q, c in core.find_caches() if c.cache_info().currsize]
    if warm:
        raise RuntimeError(f"cold table requested in a process that is not pristine: {warm}")
    for cid, src in CALLS:
        for o in OPTS:
            r, w = os.pipe()
            pid = os.fork()
            if pid == 0:
                code = 1
                try:
                    os.close(r)
                    core.set_options(*o)
                    data = pickle.dumps(call(dict(ns0), src))
                    with os.fdopen(w, 'wb') as f:
                        f.write(data)
                    code = 0
                finally:
                    os._exit(code)
            os.close(w)
            with os.fdopen(r, 'rb') as f:
                data = f.read()
            _, st = os.waitpid(pid, 0)
            if st != 0 or not data:
                raise RuntimeError(f"cold evaluation of {cid} under {o} failed (status {st})")
            _cold[(cid, o)] = pickle.loads(data)


def classify(hist):
    kinds = [k for k, _ in hist]
    sets = [v for k, v in hist if k == 'set']
    tag = 'optchange' if len(set(sets)) > 1 else 'sameopts'
    if 'mutate' in kinds:
        tag += '+mutate'
    if 'flood' in kinds:
        tag += '+flood'
    return tag


def snippet(hist, ms, exp):
    lines = ["import bitstring", HELPERS_SRC]
    last_call = None
    opts = OPTS[0]
    last_idx = max(i for i, (k, _) in enumerate(hist) if k == 'call')
    for i, (k, v) in enumerate(hist):
        if i == last_idx:
            last_call = v
            continue
        if k == 'set':
            lines.append(f"SET({tuple(v)!r})")
            opts = v
        elif k == 'call':
            lines += ["try:", f"    R = {CALL_SRC[v]}", "except Exception:", "    pass"]
            last_call = v
        elif k == 'mutate':
            lines += ["try:", f"    {v}", "except Exception:", "    pass"]
        elif k == 'flood':
            lines.append(FLOODS[v].format(n=ms + 1))
        elif k == 'cold':
            lines.append("COLD()")
    lines.append(f"warm = OBS(lambda: {CALL_SRC[last_call]})")
    lines.append(f"cold = {exp!r}      # the same call in a process that has made no other call, same options")
    lines.append("assert warm == cold, (warm, cold)")
    return '\n'.join(lines)
