HOOK_COMMITS = []
NOTES = ("All checks run /venv/bin/python on bitstring imported from /repo's working tree (BSMC_REPO overrides for scratch copies). "
         "VERIF_SEED only rotates shard order and seeds one extra LFSR content pattern; the enumerated space is fixed. "
         "known_findings.json lists genuine defects (open: reported as KNOWN-FINDING; fixed: suppress nothing).")
NOT_APPLICABLE = {}
CHECKS = {
 'C15': dict(
    text="Bounded exhaustive total classification: every (dtype, length, value) in the stated menus - lengths valid and invalid (negative, zero, non-whole-byte for endian types, not 16/32/64 for floats, not 1 for bool), integer values at, just inside and just outside every range limit (exhaustively for small widths), valid and invalid digit strings, token lengths that disagree with the value, and every (offset, length) window incl. negative and beyond-the-end ones for bytes=, bitarray=, BytesIO, filename= and file handles - is pushed through every creation route, through property assignment on a non-empty object and through Array setitem/append/insert/extend/slice assignment; the outcome must be the classification computed from the definitions: exact success, or a ValueError with nothing created and the target unchanged.",
    design_ref="DESIGN.md section 4 C15",
    note="CreationError is an alias of ValueError here; any ValueError subclass counts as the documented rejection. Wrong value *types* are out of scope (C20).",
    technique="explicit-state bounded exhaustive enumeration (product explorer) with a total accept/reject classification oracle"),
 'C02': dict(
    text="Bounded exhaustive exploration of (dtype, length, value) x route x class: every fixed-length dtype and alias, every legal length in the stated lists, all values for small widths and the boundary family above, all 65536 binary16 patterns and an exponent x mantissa family for binary32/64; each value is built through 14 creation routes (keyword+length, sized keyword, sized/unsized property assignment, both token spellings, Dtype.build both spellings, pack with positional/embedded/keyword length and value, fromstring, Array) on all four classes and compared with an independent encoder (int arithmetic / format(), struct.pack, byte reversal), and read back through 9 reading routes; conversely every bit pattern of each small valid width is interpreted and rebuilt.",
    design_ref="DESIGN.md section 4 C02",
    note="Trusts Python int/format/struct as the definition. Native-endian expectations derive from sys.byteorder (little-endian only). Wide integers only at boundary values.",
    technique="explicit-state bounded exhaustive enumeration (product explorer) with independent reference encoders"),
 'C11': dict(
    text="Fully exhaustive tables plus boundary enumeration: every code of every format is decoded through six reading routes (and under lsb0) and compared bit-exactly (sign of zero, NaN, infinities) with an exact model; every one of the 65536 binary16 values is encoded into every format under both mxfp_overflow settings, and for every pair of adjacent binary16 values the midpoint and its two binary64 neighbours (both signs), the binary16 overflow threshold, format-specific overflow thresholds and specials are encoded too; all eight creation routes on a fixed stride; mxint at every k/128 +-1ulp, e8m0 at every power of two and its neighbours, bfloat on all 65536 codes in every byte order and on a binary32 pattern family plus every bfloat midpoint; scaled dtypes; decode->re-encode identity.",
    design_ref="DESIGN.md section 4 C11",
    note="Trusts the exact model bsmc/models/minifloat.py (self-tested against struct '>e' and the values printed in doc/exotic_floats.rst) and the documented fact that inputs are first rounded to binary16, which makes encode constant on each binary16 rounding interval - every interval end point is enumerated. Any NaN code is accepted for NaN inputs (not documented which).",
    technique="exhaustive enumeration of codec tables and rounding-interval end points against an exact rational reference model"),
 'C09': dict(
    text="Exhaustive enumeration of call histories of the shape [SET options o1; CALL A; X; SET options o2; CALL B] on the real module state: every ordered pair (A, B) of a 53-call alphabet (construct from token strings incl. option-dependent codecs and bits= tokens, fromstring, pack incl. list formats and keyword lengths/values, unpack/readlist/read, Dtype creation with int/float scales observed through the value and type of parse/build, scaled Array arithmetic), every option pair in the menu, X in {nothing, six mutations of A's result, flooding each LRU cache family with maxsize+1 fresh keys (maxsize read from cache_info)}; B's observation must equal the cold table entry (same call, every cache cleared, same options). Thorough adds three-call histories.",
    design_ref="DESIGN.md section 4 C09",
    note="Differential against the same implementation on cold caches (absolute values are judged by C02/C05/C10/C11). Caches are discovered by walking the package for cache_clear attributes; options are reset and caches cleared before every history.",
    technique="exhaustive enumeration of bounded call/option/eviction histories against a cold-cache oracle"),
 'C04': dict(
    text="Exhaustive enumeration of small-heap histories on real objects: CREATE a source through every construction route (incl. string-cache hit, fromstring, bits= of a mutable, external bytearray/memoryview/array/bitarray buffers) ; DERIVE an object through each of ~55 routes (constructors, bits= / .bits, copies, slices, every operator, join, pack, Dtype.build, unpack, cut, split, stream reads, tobitarray, Array construction/slicing/copy, append/prepend/insert/overwrite/replace into another object, lsb0 variants) x 4 target classes ; optionally a second DERIVE hop ; MUTATE any mutable member of the world with each of ~35 mutations ; then re-read every other member (bin, len, hash) and re-create from the same strings. Plus pseudo-mutation: every public attribute of Bits / ConstBitStream objects is called with 15 argument tuples and the object re-read.",
    design_ref="DESIGN.md section 4 C04",
    note="Invariant oracle (no model): an object that was not the target of the mutation keeps its snapshot value. Behavioural verdict only; buffer identity is never consulted. Worlds of <= 4 objects, 3 contents (4, 8, 18 bits).",
    technique="exhaustive enumeration of bounded operation histories (depth <= 5) on a small heap with an invariant checked after every history"),
 'C08': dict(
    text="Bounded exhaustive differential exploration: for every content in the bound, every class, msb0 and lsb0, an object is built through each of ~40 construction routes (text forms, bytes/bytearray/memoryview/array/bitarray/BytesIO with offset and length, iterables, string-cache hit, slices/copies of larger objects, result of mutation, files by name and handle with offset in {none,0,3,8} and a length shorter than the file) and the whole API battery (~125 non-mutating, 20 stream and 44 mutating events incl. out-of-range arguments) is executed on it; observation (value or exception class) and post-state must equal those of the canonical twin Cls(bin=...).",
    design_ref="DESIGN.md section 4 C08",
    note="Differential: the twin built with bin= is the reference, so a defect common to all routes is invisible here (C01/C03/C07... judge absolute values). repr() excluded (shows the file name by design).",
    technique="explicit-state bounded exhaustive enumeration (product explorer), differential oracle against a canonical twin"),
 'C13': dict(
    text="Bounded exhaustive exploration over pairs and triples: every ordered pair of objects (class x content x ~40 construction routes incl. file-backed with offset/length x pos) with equal content, and every object against representatives of every other content, is compared with ==, != in both directions, and for hashable classes by hash, set and dict membership; long contents around the 2000/3600-bit hash thresholds with single-bit and length variants; every promotable and non-promotable right operand; transitivity over all triples of small contents.",
    design_ref="DESIGN.md section 4 C13",
    note="Trusts str equality. Small contents exhaustive to 4 (quick) / 5 (thorough) bits; long contents by pattern family at the listed lengths.",
    technique="explicit-state bounded exhaustive enumeration of object pairs/triples (product explorer) against bit-string equality"),
 'C06': dict(
    text="Explicit-state breadth-first search over stream-operation histories on one real ConstBitStream/BitStream: from every root (class x content x pos, two construction routes) the full event menu (reads/peeks with every token kind and integer counts incl. 0, negative and one past the end, readlist/peeklist forms incl. stretchy tokens and keyword lengths, seeks via pos/bitpos/bytepos/bytealign, find/rfind/readto, every BitStream mutator with and without explicit position, property assignments, every operation returning a new stream, ==/hash against a twin) is applied at depth 1-2 and reduced menus deeper, with ((bits,pos), hidden fingerprint) deduplication; each transition is replayed from the root and value, content and pos are compared with a (bits,pos) reference machine; 0 <= pos <= len is checked after every event.",
    design_ref="DESIGN.md section 4 C06",
    note="Trusts bsmc/models/stream.py (+ mut.py, golomb.py). Accept sets are widened only where the statement is silent (pos after unlisted operations: unchanged-if-valid or 0). Content capped at 12 bits (40 for byte-structured roots).",
    technique="explicit-state BFS over operation histories with state deduplication, replay-from-root, lock-step reference machine"),
 'C03': dict(
    text="Explicit-state breadth-first search over mutator histories on one real BitArray/BitStream: from every root (class x content x construction route) the full event menu (~700 events derived from the current length: every mutator, positions in/at/beyond the ends, negative indices, steps, empty and self operands, range/list/generator positions) is applied at depth 1, reduced menus deeper, with (bits, hidden-state fingerprint) deduplication; every transition is replayed from the root on fresh objects and its return value and complete post-content are compared with a list-of-bits reference model, which implies the frame condition.",
    design_ref="DESIGN.md section 4 C03",
    note="Trusts the reference model bsmc/models/mut.py (self-tested against the examples in doc/bitarray.rst). Exception classes are judged in C20, here any exception counts as 'raises' and the content must then be unchanged. Content capped at 14 bits (40 for byte-structured roots).",
    technique="explicit-state BFS over operation histories with state deduplication, replay-from-root, lock-step reference model"),
 'C10': dict(
    text="Bounded exhaustive exploration: every integer of a window around 0 and every +-(2**k+d) up to 2**200 is encoded through every creation route and compared with codewords computed from the H.264/Dirac definitions; every bit string up to 15 (quick) / 18 (thorough) bits is fed to every decoder entry point (read, peek, unpack, property, Dtype.parse) at pos 0 and after junk bits and compared with a reference prefix parser (value, new pos, ReadError/ValueError, pos unchanged); every sequence of <= 3/4 mixed codewords is read back step by step.",
    design_ref="DESIGN.md section 4 C10",
    note="Trusts the 80-line reference codecs (bsmc/models/golomb.py), self-tested against the tables printed in doc/exp-golomb.rst. Integers beyond the window are covered only at powers of two +-2.",
    technique="explicit-state bounded exhaustive enumeration of decoder inputs / encoder domain with lock-step reference codec"),
 'C16': dict(
    text="Bounded exhaustive exploration: every ordered pair of contents in the bound x every operator (& | ^ plain, reflected, in-place; ~; << >> <<= >>= with every shift count in the menu) x class combination and promotable operand form is executed on the real classes and compared with Python int arithmetic masked to len; result class, result pos, exception class and 'operands unchanged' (including s OP s) are part of every comparison.",
    design_ref="DESIGN.md section 4 C16",
    note="Trusts Python int arithmetic. Contents exhaustive to 7 (quick) / 9 (thorough) bits, plus word-boundary lengths 63..129 (thorough: to 2001).",
    technique="explicit-state bounded exhaustive enumeration (product explorer) with lock-step integer reference model"),
 'C01': dict(
    text="Bounded exhaustive exploration of the sequence operations: for every (class, content, pos) state in the bound, every index, every slice triple of the stated menus, every concatenation pair (bitstring and promotable operands, both orders) and every repeat count is executed on the real classes and compared with the same expression on the str of the bits (value, class, pos of result, operands unchanged).",
    design_ref="DESIGN.md section 4 C01",
    note="Trusts Python str semantics. Contents exhaustive to 9 (quick) / 11 (thorough) bits plus boundary lengths up to 16385 bits; slice index arithmetic checked for all triples on index-plane contents up to L=11/16.",
    technique="explicit-state bounded exhaustive enumeration (product explorer) with lock-step str reference model"),
 'C07': dict(
    text="Bounded exhaustive exploration: every (class, data, options.bytealigned) state x every search event (find, rfind, findall, in, startswith, endswith, count, cut, split, replace x pattern x start/end x count x bytealigned) within the stated bounds is executed on the real classes and compared with a quadratic-scan reference; a coverage statement over a complete finite product, not a sample.",
    design_ref="DESIGN.md section 4 C07",
    note="Trusts Python str slicing and the 60-line reference scan (bsmc/models/search.py). Data exhaustively up to 7 (quick) / 9 (thorough) bits plus byte-structured and boundary-length families; msb0 only (lsb0 mirror is C12).",
    technique="explicit-state bounded exhaustive enumeration (product explorer) with lock-step reference model"),
}
