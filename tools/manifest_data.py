HOOK_COMMITS = []
NOTES = ("All checks run /venv/bin/python on bitstring imported from /repo's working tree (BSMC_REPO overrides for scratch copies). "
         "VERIF_SEED only rotates shard order and seeds one extra LFSR content pattern; the enumerated space is fixed. "
         "known_findings.json lists genuine defects (open: reported as KNOWN-FINDING; fixed: suppress nothing).")
NOT_APPLICABLE = {}
CHECKS = {
 'C07': dict(
    text="Bounded exhaustive exploration: every (class, data, options.bytealigned) state x every search event (find, rfind, findall, in, startswith, endswith, count, cut, split, replace x pattern x start/end x count x bytealigned) within the stated bounds is executed on the real classes and compared with a quadratic-scan reference; a coverage statement over a complete finite product, not a sample.",
    design_ref="DESIGN.md section 4 C07",
    note="Trusts Python str slicing and the 60-line reference scan (bsmc/models/search.py). Data exhaustively up to 7 (quick) / 9 (thorough) bits plus byte-structured and boundary-length families; msb0 only (lsb0 mirror is C12).",
    technique="explicit-state bounded exhaustive enumeration (product explorer) with lock-step reference model"),
}
