#!/bin/bash
# usage: tools/run_all.sh [quick|thorough] [seed]   - runs every check, summarises exit codes and wall time
tier=${1:-quick}; seed=${2:-0}
cd "$(dirname "$0")/.."
for i in $(seq -w 1 20); do
  p=C$i; s=$(date +%s.%N)
  out=$(VERIF_SEED=$seed ./check $p $tier 2>&1); rc=$?
  e=$(date +%s.%N)
  printf "%s exit=%s wall=%.1fs %s\n" $p $rc $(echo "$e - $s" | bc) "$(echo "$out" | grep -c '^VIOLATION\|^HARNESS\|^KNOWN')"
  [ $rc -ne 0 ] && echo "$out" | grep '^VIOLATION\|^HARNESS' | head -3
done
