"""C03 - in-place mutations equal their sequence-level specification; nothing else moves (BFS).

world = one BitArray or BitStream `s`; model state = the str of its bits (pos is judged in C06).
events = every mutator with argument menus derived from the current length; oracle = bsmc.models.mut.
"""
from __future__ import annotations

from .. import core, families, bfs
from ..bfs import Event
from ..models import mut as M

PROPERTY = 'C03'
VACUITY = dict(need_ok=['append', 'prepend', 'insert', 'overwrite', 'delitem', 'delslice', 'setitem', 'setslice', 'replace', 'reverse',
                        'rol', 'ror', 'set', 'invert', 'byteswap', 'ilshift', 'irshift', 'imul', 'iand', 'ior', 'ixor', 'clear', 'iadd'],
               need_rej=['insert', 'overwrite', 'delitem', 'setitem', 'setslice', 'replace', 'reverse', 'rol', 'ror', 'set', 'invert',
                         'byteswap', 'ilshift', 'irshift', 'imul', 'iand'], min_outcomes=200)
CAP = 14


def describe(tier):
    q = tier == 'quick'
    return dict(bounds=dict(roots='BitArray and BitStream x all contents of length <= %d x {fresh, left over from an earlier mutation}; '
                                  'byte-structured roots of 8,16,17,24,25 bits' % (4 if q else 5),
                            plan='depth 1: full menu (~700 events/state); depth 2%s: reduced menu (~90 events); then reduced menu with '
                                 '<= 1 deviation to depth %d%s' % ('' if q else ' (3 from roots of <= 2 bits)', 3 if q else 4, ' (quick: depth 3 only from roots of <= 2 bits)' if q else ''),
                            content_cap_bits=CAP, positions='-L-1,-L,-1,0,1,L//2,L-1,L,L+1', operands="'', 0, 1, 01, 110, self"),
                rule='BFS over event histories with (bits, hidden fingerprint) deduplication; every transition is replayed from the root on '
                     'fresh objects and compared (return value, full content) with the list-of-bits model; non-trivial = the model accepts the '
                     'call and it changes the content or returns a value',
                assumptions=['model written from the docstrings and doc/bitarray.rst, self-tested on the doc examples',
                             'exception classes are not judged here (C20); any exception counts as "raises"',
                             'accept sets are widened only at: insert/overwrite of an empty operand at an invalid position, '
                             'rol/ror over an empty range, integer assignment to a step -1 slice'])


def selftest():
    M.selftest()


def shards(tier, seed):
    q = tier == 'quick'
    out = []
    n = 4 if q else 5
    for cls in ('BitArray', 'BitStream'):
        for route in ('fresh', 'leftover'):
            for d in families.all_bits(n):
                out.append(dict(cls=cls, bits=d, route=route, plan='std'))
    bytes_roots = ['10110010', '1011001000000001', '10110010000000011', '101100100000000111111111', '0101100100000000111111111',
                   '00000000', '1111111100000000']
    for i, d in enumerate(bytes_roots):
        out.append(dict(cls=('BitArray', 'BitStream')[i % 2], bits=d, route='fresh', plan='bytes'))
    return out


class System:
    def __init__(self, bs, ctx=None):
        self.bs = bs
        self.ctx = ctx

    def build(self, root):
        cls = getattr(self.bs, root['cls'])
        if root['route'] == 'fresh':
            s = cls(bin=root['bits'])
        else:
            s = cls(bin='1' + root['bits'] + '01')
            del s[0]
            del s[-2:]
        return {'bitstring': self.bs, 's': s, 'FW': self.fw, 'WITH_BA': self.with_ba}

    def with_ba(self, thunk):
        self.bs.options.bytealigned = True
        try:
            return thunk()
        finally:
            self.bs.options.bytealigned = False

    def fw(self, bits):
        from .. import routes
        data = bits + '1' * (24 - len(bits))
        return self.bs.Bits(filename=self.ctx.file_for(int(data, 2).to_bytes(3, 'big')), length=len(bits))

    def root_src(self, root):
        if root['route'] == 'fresh':
            return [f"s = bitstring.{root['cls']}(bin={root['bits']!r})"]
        return [f"s = bitstring.{root['cls']}(bin={'1' + root['bits'] + '01'!r})", "del s[0]", "del s[-2:]"]

    def observe(self, world):
        return world['s'].bin

    def fingerprint(self, world):
        s = world['s']
        try:
            return (s._bitstore.immutable, getattr(s, 'pos', None))
        except AttributeError:
            return 'degraded'

    def events(self, st, depth, menu):
        return menu_events(len(st), menu)

    def model(self, st, ev):
        return model_step(st, ev)

    def group(self, ev, kind):
        if ev.op in ('set', 'invert') and ev.args and isinstance(ev.args[0], str):
            return 'range' if ev.args[0].startswith('range') else ev.args[0][:1]
        return ''

    def snippet(self, root, hist, ev, accept):
        lines = ["import bitstring"] + ([FW_SRC] if any('FW(' in x.src for x in list(hist) + [ev]) else []) + ([BA_SRC] if any('WITH_BA(' in x.src for x in list(hist) + [ev]) else []) + self.root_src(root)
        for h in hist:
            lines += ["try:", f"    {h.src}", "except Exception:", "    pass"]
        lines += ["try:", f"    r = ('ok', {ev.src})" if _is_expr(ev.src) else f"    {ev.src}; r = ('ok', None)",
                  "except Exception as e:", "    r = ('exc', None)"]
        if accept is None:
            # the event did not return within the watchdog's CPU budget: replay it under an alarm - if it returns, the replay passes
            lines.insert(0, "import signal; signal.alarm(120)")
            lines.append("signal.alarm(0)")
        else:
            alts = [(tuple(p) if p[0] == 'ok' else ('exc', None), b) for p, b in accept]
            lines.append(f"assert (r, s.bin) in {alts!r}, (r, s.bin)")
        return '\n'.join(lines)


def _is_expr(src):
    try:
        compile(src, '<e>', 'eval')
        return True
    except SyntaxError:
        return False


def P(L):
    return list(dict.fromkeys([-L - 1, -L, -1, 0, 1, L // 2, L - 1, L, L + 1]))


OPERANDS = [('', "''"), ('0', "'0b0'"), ('1', "bitstring.Bits(bin='1')"), ('01', "'0b01'"), ('110', "bitstring.BitArray(bin='110')"), ('SELF', 's'),
            ('10', "FW('10')")]       # FW: the operand is a length-limited window onto a longer file (its bits are '10', the file goes on with 1s)

BA_SRC = '''def WITH_BA(thunk):
    bitstring.options.bytealigned = True
    try:
        return thunk()
    finally:
        bitstring.options.bytealigned = False'''

FW_SRC = '''import tempfile, os
_FWDIR = tempfile.mkdtemp()
def FW(bits):
    # Bits(filename=..., length=len(bits)): a window onto a longer file
    path = os.path.join(_FWDIR, 'w' + bits)
    if not os.path.exists(path):
        data = bits + '1' * (24 - len(bits))
        with open(path, 'wb') as f:
            f.write(int(data, 2).to_bytes(3, 'big'))
    return bitstring.Bits(filename=path, length=len(bits))'''


def opnd(st, b):
    return st if b == 'SELF' else b


_menu_cache = {}


def menu_events(L, menu):
    k = (L, menu)
    if k not in _menu_cache:
        _menu_cache[k] = _menu_events(L, menu)
    return _menu_cache[k]


def _menu_events(L, menu):
    ev = []
    A = ev.append
    full = menu == 'full'
    byt = menu == 'bytes'
    pos_all = P(L)
    pos_red = list(dict.fromkeys([0, L // 2, L, -1, L + 1]))
    operands = OPERANDS if full else [OPERANDS[3], OPERANDS[1], OPERANDS[0], OPERANDS[5]]

    def dv_pos(p):
        return not (0 <= p <= L) or p in (0, L)

    if not byt:
        for b, src in operands:
            dev = b in ('', 'SELF')
            A(Event('append', (b,), f"s.append({src})", dev))
            A(Event('prepend', (b,), f"s.prepend({src})", dev))
            if full or b == '01':
                A(Event('iadd', (b,), f"s.__iadd__({src}) is s", dev))
            for p in (pos_all if full else pos_red):
                A(Event('insert', (b, p), f"s.insert({src}, {p})", dev or dv_pos(p)))
                A(Event('overwrite', (b, p), f"s.overwrite({src}, {p})", dev or dv_pos(p)))
        for i in (pos_all if full else [0, -1, L]):
            A(Event('delitem', (i,), f"del s[{i}]", not 0 < i < L - 1))
        sl = [None, 1, -1, L // 2, L + 2, -L - 1] if full else [None, 1]     # incl. bounds that overrun either end
        steps = [None, 1, -1, 2, -2, 0] if full else [None, 2, -1]
        for a in sl:
            for b in sl:
                for c in steps:
                    if c == 0 and (a, b) != (None, None):
                        continue
                    src = _sl(a, b, c)
                    dev = c not in (None, 1) or a is not None and a < 0
                    A(Event('delslice', (a, b, c), f"del s[{src}]", dev))
                    vals = [('bits', '', "''"), ('bits', '1', "'0b1'"), ('bits', '01', "bitstring.Bits(bin='01')"), ('bits', 'SELF', 's'), ('bits', '10', "FW('10')"),
                            ('int', 0, '0'), ('int', 1, '1'), ('int', 3, '3'), ('int', -1, '-1'), ('int', -2, '-2')]
                    if not full:
                        vals = [vals[1], vals[2], vals[6], vals[7]]
                    for kind, v, vsrc in vals:
                        A(Event('setslice', (a, b, c, kind, v), f"s[{src}] = {vsrc}", dev or v in ('', 'SELF', -1, -2)))
        ivals = [('int', 0, '0'), ('int', 1, '1'), ('int', -1, '-1'), ('int', 2, '2'), ('int', 1, 'True'), ('bits', '1', "'0b1'"),
                 ('bits', '10', "'0b10'"), ('bits', '', "''")]
        for i in (pos_all if full else [0, -1, L]):
            for kind, v, vsrc in (ivals if full else [ivals[1], ivals[0], ivals[6]]):
                A(Event('setitem', (i, kind, v), f"s[{i}] = {vsrc}", not 0 < i < L - 1 or vsrc not in ('0', '1')))
        # '11' is self-overlapping: successive *non-overlapping* matches and the count limit interact
        olds = [('0', "'0b0'"), ('1', "'0b1'"), ('01', "'0b01'"), ('11', "'0b11'"), ('', "''"), ('10', "FW('10')")] if full else [('1', "'0b1'"), ('01', "'0b01'"), ('11', "'0b11'")]
        news = [('', "''"), ('1', "'0b1'"), ('00', "'0b00'"), ('SELF', 's'), ('10', "FW('10')")] if full else [('00', "'0b00'"), ('', "''")]
        wins = [(None, None), (1, None), (None, -1), (1, -1), (L + 1, None)] if full else [(None, None), (1, -1)]
        for o, osrc in olds:
            for n_, nsrc in news:
                for (a, b) in wins:
                    for cnt in ((None, 1, 2, 0) if full else (None, 2)):
                        A(Event('replace', (o, n_, a, b, cnt), f"s.replace({osrc}, {nsrc}, {a}, {b}, {cnt})",
                                o == '' or n_ == 'SELF' or (a, b) != (None, None)))
        rwin = [None, 0, 1, -1, L // 2, L, L + 1] if full else [None, 1]
        for a in rwin:
            for b in rwin:
                A(Event('reverse', (a, b), f"s.reverse({a}, {b})", (a, b) != (None, None)))
        rots = [-1, 0, 1, L - 1, L, L + 1] if full else [1, L + 1]
        rw = [(None, None), (1, None), (None, -1), (1, -1), (2, 2), (L + 1, None), (0, 1)] if full else [(None, None), (1, -1)]
        for n_ in dict.fromkeys(rots):
            for (a, b) in rw:
                A(Event('rol', (n_, a, b), f"s.rol({n_}, {a}, {b})", (a, b) != (None, None) or n_ != 1))
                A(Event('ror', (n_, a, b), f"s.ror({n_}, {a}, {b})", (a, b) != (None, None) or n_ != 1))
        # set / invert position forms
        pforms = [('none', None, 'None')]
        for p in (pos_all if full else [0, -1, L]):
            pforms.append(('int', p, str(p)))
        seqs = [[0], [0, -1], [L], [0, L], [1, -L - 1, 0], []] if full else [[0, -1], [0, L]]
        for sq in seqs:
            pforms.append(('seq', sq, repr(sq)))
            if full:
                pforms.append(('seq', sq, repr(tuple(sq))))
        if full:
            pforms.append(('seq', [0, L // 2], f"(x for x in [0, {L // 2}])"))
        ranges = [(0, L, 2), (L + 1,), (-1, -L - 1, -1), (-2, 2), (0, 10, 3), (L,), (1, L, 1), (L - 1, -1, -1), (0,)] if full else [(0, L, 2), (L + 1,)]
        for r in ranges:
            pforms.append(('seq', list(range(*r)), f"range({', '.join(map(str, r))})"))
        for kind, pv, psrc in pforms:
            dev = kind != 'none' and not (kind == 'int' and 0 < pv < L - 1)
            for v in (1, 0):
                A(Event('set', (psrc, v, kind, pv), f"s.set({v}, {psrc})", dev))
            A(Event('invert', (psrc, kind, pv), f"s.invert({psrc})", dev))
        for n_ in (dict.fromkeys([-1, 0, 1, L - 1, L, L + 1]) if full else [1, 0]):
            A(Event('ilshift', (n_,), f"s.__ilshift__({n_}) is s", n_ != 1))
            A(Event('irshift', (n_,), f"s.__irshift__({n_}) is s", n_ != 1))
        for n_ in ((-1, 0, 1, 2, 3) if full else (2, 0)):
            A(Event('imul', (n_,), f"s.__imul__({n_}) is s", n_ != 2))
        bops = [('Z', f"bitstring.Bits({L})"), ('O', f"bitstring.Bits(bin={'1' * L!r})"), ('A', f"bitstring.BitArray(bin={('01' * L)[:L]!r})"),
                ('SELF', 's'), ('S', f"bitstring.Bits(bin={('1' * L)[:-1]!r})"), ('E', "''")]
        for tag, src in (bops if full else [bops[2], bops[3], bops[4]]):
            for op, dn in (('iand', '__iand__'), ('ior', '__ior__'), ('ixor', '__ixor__')):
                A(Event(op, (tag,), f"s.{dn}({src}) is s", tag in ('SELF', 'S', 'E')))
        A(Event('clear', (), "s.clear()", False))
    # byteswap (meaningful only when there are whole bytes; always offered on byte roots)
    if byt or (full and L >= 8) or (menu == 'reduced' and L >= 8):
        fmts = [(None, 'None'), (0, '0'), (1, '1'), (2, '2'), ([1, 2], '[1, 2]'), ([2, 0, 1], '[2, 0, 1]'), ('h', "'h'"), ('>2h', "'>2h'"),
                ('bh', "'bh'"), (-1, '-1'), ('x', "'x'"), ([1, -1], '[1, -1]'), (3, '3'), ((1, 1), '(1, 1)'),
                # one-shot iterables are iterables of integers too
                ((1, 2, 'gen'), '(n for n in [1, 2])'), ((2, 'iter'), 'iter([2])'), ((1, 1, 'range'), 'range(1, 2)')]
        bw = [(None, None), (8, None), (0, 16), (1, None), (None, -1), (8, 8), (0, L + 1), (1, 17), (8, 24)]
        if menu == 'reduced':
            fmts, bw = fmts[:4], bw[:3]
        for f, fsrc in fmts:
            for (a, b) in bw:
                for rep in (True, False):
                    A(Event('byteswap', (f if not isinstance(f, list) else tuple(f), a, b, rep), f"s.byteswap({fsrc}, {a}, {b}, {rep})",
                            (a, b) != (None, None) or not rep))
    if byt:
        # a few length-preserving companions so byte roots also see depth-2 interactions
        A(Event('reverse', (8, None), "s.reverse(8, None)", True))
        A(Event('ror', (3, None, None), "s.ror(3, None, None)", False))
        A(Event('replace', ('10110010', '00000000', None, None, None, 'BA'), "s.replace('0xb2', '0x00', bytealigned=True)", False))
        A(Event('replace', ('1', '', 8, None, 1, 'BA'), "s.replace('0b1', '', 8, None, 1, bytealigned=True)", True))
        # the module-wide default (options.bytealigned) against the explicit argument: explicit False wins, None defers to the option
        A(Event('replace', ('10110010', '0', None, None, None, 'optBA-explicit-False'), "WITH_BA(lambda: s.replace('0xb2', '0b0', bytealigned=False))", True))
        A(Event('replace', ('1', '', None, None, 2, 'optBA-explicit-False'), "WITH_BA(lambda: s.replace('0b1', '', count=2, bytealigned=False))", True))
        A(Event('replace', ('10110010', '0', None, None, None, 'BA', 'optBA-None'), "WITH_BA(lambda: s.replace('0xb2', '0b0'))", True))
        A(Event('replace', ('01', '1', None, None, None, 'BA', 'optBA-None'), "WITH_BA(lambda: s.replace('0b01', '0b1', bytealigned=None))", True))
        A(Event('set', ('range(0, 16, 3)', 1, 'seq', list(range(0, 16, 3))), "s.set(1, range(0, 16, 3))", True))
        A(Event('delslice', (None, 8, None), "del s[:8]", False))
    return ev


def _sl(a, b, c):
    f = lambda x: '' if x is None else str(x)
    return f"{f(a)}:{f(b)}" + ('' if c is None else f":{c}")


def _self(acc_list):
    """'self' return marker -> True (events are written as `s.__iop__(x) is s`)."""
    return [((p[0], True if p[1] == 'self' else p[1]) if p[0] == 'ok' else p, b) for p, b in acc_list]


def model_step(st, ev):
    op, a = ev.op, ev.args
    if op in ('append', 'iadd'):
        r = M.append(st, opnd(st, a[0]))
        return [((('ok', True), b) if op == 'iadd' else (p, b)) for p, b in r]
    if op == 'prepend':
        return M.prepend(st, opnd(st, a[0]))
    if op == 'insert':
        return M.insert(st, opnd(st, a[0]), a[1])
    if op == 'overwrite':
        return M.overwrite(st, opnd(st, a[0]), a[1])
    if op == 'delitem':
        return M.delitem(st, a[0])
    if op == 'delslice':
        return M.delslice(st, a[0], a[1], a[2])
    if op == 'setitem':
        return M.setitem_int(st, a[0], (a[1], a[2]))
    if op == 'setslice':
        v = (a[3], opnd(st, a[4]) if a[3] == 'bits' else a[4])
        return M.setslice(st, a[0], a[1], a[2], v)
    if op == 'replace':
        ba = len(a) > 5 and a[5] == 'BA'
        return M.replace(st, a[0], opnd(st, a[1]), a[2], a[3], a[4], ba)
    if op == 'reverse':
        return M.reverse(st, a[0], a[1])
    if op in ('rol', 'ror'):
        return M.rotate(st, a[0], a[1], a[2], op == 'rol')
    if op == 'set':
        return M.set_(st, a[1], (a[2], a[3]))
    if op == 'invert':
        return M.invert(st, (a[1], a[2]))
    if op == 'byteswap':
        f = [x for x in a[0] if not isinstance(x, str)] if isinstance(a[0], tuple) else a[0]
        if isinstance(a[0], tuple) and a[0] and a[0][-1] == 'range':
            f = [1]
        return M.byteswap(st, f, a[1], a[2], a[3])
    if op in ('ilshift', 'irshift'):
        return _self(M.ishift(st, a[0], op == 'ilshift'))
    if op == 'imul':
        return _self(M.imul(st, a[0]))
    if op in ('iand', 'ior', 'ixor'):
        L = len(st)
        b = {'Z': '0' * L, 'O': '1' * L, 'A': ('01' * L)[:L], 'SELF': st, 'S': ('1' * L)[:-1], 'E': ''}[a[0]]
        return _self(M.ibool(st, b, {'iand': '&', 'ior': '|', 'ixor': '^'}[op]))
    if op == 'clear':
        return M.clear(st)
    raise KeyError(op)


def run_shard(shard, acc):
    from .. import routes
    ctx = routes.Ctx()
    try:
        _run_shard(shard, acc, ctx)
    finally:
        ctx.close()


def _run_shard(shard, acc, ctx):
    bs = core.import_bitstring()
    sysm = System(bs, ctx)
    q = acc.tier == 'quick'
    if shard['plan'] == 'std':
        if q:
            plan = [('full', None), ('reduced', None)]
            if len(shard['bits']) <= 2:
                plan.append(('reduced', 1))
        else:
            plan = [('full', None), ('reduced', None), ('reduced', 1), ('reduced', 1)]
            if len(shard['bits']) <= 2:
                plan = [('full', None), ('reduced', None), ('reduced', None), ('reduced', 1)]
        cap = lambda s: len(s) <= CAP
    else:
        plan = [('bytes', None), ('bytes', None if not q else 2)] + ([] if q else [('bytes', 1)])
        cap = lambda s: len(s) <= 40
    bfs.explore(sysm, acc, shard, plan, state_cap=cap, timeout=10.0)
