"""C01 - every bitstring behaves as the Python sequence of its bits (product explorer).

state  = (class, content, pos)         event = len | bool | iter | s[i] | s[a:b:c] | s+t | t+s | s*n | n*s
oracle = the same expression on the str of the bits.
"""
from __future__ import annotations

import array
import itertools

from .. import core, families, routes as RT
from ..util import CLASSES, STREAMS, obs, cb, vkind, mk, snippet, fmt_slice

PROPERTY = 'C01'
VACUITY = dict(need_ok=['index', 'slice', 'add', 'radd', 'mul', 'rmul', 'len', 'bool', 'iter'],
               need_rej=['index', 'mul', 'slice'], min_outcomes=100)

REPEATS = list(range(-2, 10)) + [15, 16, 17, 31, 32, 33, 64, 65]


def describe(tier):
    q = tier == 'quick'
    return dict(
        bounds=dict(classes=list(CLASSES), all_contents_up_to_bits=9 if q else 15,
                    slice_triples='ALL a,b in {None} U [-L-2, L+2], c in {None,+-1,+-2,+-3,+-L,+-(L+1),0} on the index-plane '
                                  'contents (bit k of the position index, k=0..3, which identify every position for L<=16) '
                                  'for L = 0..%d; reduced menu on all other contents' % (11 if q else 26),
                    edge_lengths=list(families.EDGE_Q if q else families.EDGE_T),
                    edge_menu='a,b in {None,0,+-1,+-7,+-8,+-9,+-63,+-64,+-65,+-(L-1),+-L,+-(L+1)} x c in {None,+-1,+-2,+-7,+-8,+-64}',
                    concat='all ordered pairs of contents of length <= %d x 4 left classes x (4 classes + promotable forms); (short, EDGE) pairs both orders' % (5 if q else 8),
                    repeats=REPEATS, stream_pos='0, mid, L'),
        rule='each (state,event) of the product is executed once; non-trivial = the str model yields a value (not IndexError/ValueError) '
             'and the event is not len/bool of the same state',
        assumptions=['Python str slicing/concatenation/repetition is the definition',
                     'index-plane contents identify element positions, so slice index arithmetic is checked for every triple '
                     'without repeating it on every content of that length'])


def planes(L):
    """Contents whose k-th member holds bit k of each position index: together they identify positions."""
    if L == 0:
        return ['']
    nb = max(1, (L - 1).bit_length())
    return list(dict.fromkeys(''.join(str((i >> k) & 1) for i in range(L)) for k in range(nb)))


def shards(tier, seed):
    q = tier == 'quick'
    out = []
    # (A) exhaustive slice triples on index-plane contents
    for L in range(0, 12 if q else 27):
        for cls in CLASSES:
            out.append(dict(kind='triples', L=L, cls=cls))
    # (B) all contents, reduced slice menu + basic events
    conts = list(families.all_bits(9 if q else 15))
    for i, part in enumerate(families.chunk(conts, 64)):
        out.append(dict(kind='basic', data=part, idx=i))
    # (C) edge lengths
    for L in (families.EDGE_Q if q else families.EDGE_T):
        out.append(dict(kind='edge', L=L, seed=seed))
    # (D) concatenation pairs
    n = 5 if q else 8
    small = list(families.all_bits(n))
    for i, part in enumerate(families.chunk(small, 32)):
        out.append(dict(kind='concat', left=part, n=n, idx=i))
    out.append(dict(kind='concat_edge', seed=seed, Ls=list(families.EDGE_Q if q else families.EDGE_T[:24])))
    return out


def build(bs, cls, d, pos=None):
    c = getattr(bs, cls)
    if pos and cls in STREAMS:
        return c(bin=d, pos=pos)
    return c(bin=d)


def poses(cls, L):
    if cls in STREAMS and L:
        return list(dict.fromkeys([0, L // 2, L]))
    return [0]


def run_shard(shard, acc):
    bs = core.import_bitstring()
    with core.watchdog(1800):
        k = shard['kind']
        if k == 'triples':
            run_triples(bs, acc, shard)
        elif k == 'basic':
            for d in shard['data']:
                for cls in CLASSES:
                    for pos in poses(cls, len(d)):
                        basic(bs, acc, cls, d, pos)
                        slices(bs, acc, cls, d, pos, reduced_menu(len(d)), (None, 1, -1, 2, -2))
        elif k == 'edge':
            L = shard['L']
            m = [None, 0] + [s * x for x in (1, 7, 8, 9, 63, 64, 65, L - 1, L, L + 1) for s in (1, -1)]
            m = list(dict.fromkeys(m))
            for di, d in enumerate(families.edge(L, shard['seed'], full=(L <= 300))):
                cls = CLASSES[di % 4]
                for pos in poses(cls, L)[:2]:
                    basic(bs, acc, cls, d, pos, index_menu=m)
                    slices(bs, acc, cls, d, pos, m, (None, 1, -1, 2, -2, 7, -7, 8, -8, 64, -64))
        elif k == 'concat':
            run_concat(bs, acc, shard)
        elif k == 'concat_edge':
            run_concat_edge(bs, acc, shard)


def reduced_menu(L):
    return list(dict.fromkeys([None, 0, 1, -1, L // 2, L, -L, L + 1, -L - 1]))


VIEW_ROUTES = ('file_len', 'file_off3_len', 'file_handle_len', 'bytes_off3', 'bytesio', 'slice', 'stepslice', 'from_mutated', 'fromstring', 'str_again')


def run_triples(bs, acc, shard):
    L, cls = shard['L'], shard['cls']
    rng = [None] + list(range(-L - 2, L + 3))
    steps = list(dict.fromkeys([None, 1, -1, 2, -2, 3, -3, L, -L, L + 1, -L - 1, 0]))
    ctx = RT.Ctx()
    try:
        for d in planes(L):
            for pos in poses(cls, L):
                slices(bs, acc, cls, d, pos, rng, steps)
            # the same triples on objects that are views of a longer source (length-limited file, offset window, slice of a larger object ...)
            for r in VIEW_ROUTES:
                try:
                    if RT.build(bs, r, cls, d, ctx) is None:
                        continue
                except Exception:  # noqa: BLE001 - construction is C08/C15 business
                    continue
                slices(bs, acc, cls, d, 0, rng, [None, 1, -1, 2, -3], mkobj=lambda r=r: RT.build(bs, r, cls, d, ctx), src=RT.source(r, cls, d), route=r)
    finally:
        ctx.close()


def basic(bs, acc, cls, d, pos, index_menu=None):
    L = len(d)
    s = build(bs, cls, d, pos)
    acc.state((cls, d, pos))
    pre = [f"s = {mk(cls, d, pos)}"]
    checks = [('len', lambda: len(s), L, 'len(s)'), ('bool', lambda: bool(s), L != 0, 'bool(s)'),
              ('iter', lambda: list(iter(s)), [c == '1' for c in d], 'list(iter(s))')]
    for op, th, exp, src in checks:
        got = obs(th)
        acc.step(op, 1, nontrivial=int(op == 'iter'), ok=1)
        if got != ('ok', exp):
            acc.violation(op, vkind(('ok', exp), got), dict(cls=cls, data=d, pos=pos), snippet(pre, src, ('ok', exp)), exp, got)
    idx = index_menu if index_menu is not None else range(-L - 2, L + 3)
    n_ok = n_rej = 0
    for i in idx:
        if i is None:
            continue
        if -L <= i < L:
            exp = ('ok', d[i] == '1')
            n_ok += 1
        else:
            exp = ('exc', 'IndexError')
            n_rej += 1
        got = obs(lambda: s[i])
        if got != exp or (got[0] == 'ok' and type(got[1]) is not bool):
            acc.violation('index', vkind(exp, got), dict(cls=cls, data=d, pos=pos, i=i), snippet(pre, f"s[{i}]", exp), exp, got)
    acc.step('index', n_ok + n_rej, nontrivial=n_ok, ok=n_ok, rej=n_rej)
    # repetition
    for n in REPEATS:
        if L * max(n, 0) > 70000:
            continue
        exp = ('exc', 'ValueError') if n < 0 else ('ok', (cls, d * n, 0 if cls in STREAMS else None))
        for op, th, src in (('mul', lambda: s * n, f"s * {n}"), ('rmul', lambda: n * s, f"{n} * s")):
            got = obs(th, cb)
            ok_ = int(exp[0] == 'ok')
            acc.step(op, 1, nontrivial=ok_, ok=ok_, rej=1 - ok_)
            if got != exp:
                acc.violation(op, vkind(exp, got), dict(cls=cls, data=d, pos=pos, n=n),
                              snippet(pre, src, exp, conv=CB_SRC), exp, got)
    if s.bin != d or (cls in STREAMS and s.pos != (pos or 0)):
        acc.violation('frame', 'frame', dict(cls=cls, data=d, pos=pos), "# reading changed the object\nassert False", d, s.bin)
    acc.outcome(('basic', L, d[:16]))
    acc.sample(dict(cls=cls, bits=d[:64], pos=pos, event='s[-1]; s * 3; len(s); list(s)'))


CB_SRC = "lambda r: (type(r).__name__, r.bin, getattr(r, 'pos', None))"


def slices(bs, acc, cls, d, pos, rng, steps, mkobj=None, src=None, route=None):
    L = len(d)
    s = mkobj() if mkobj else build(bs, cls, d, pos)
    acc.state((cls, d, pos, route))
    if src:
        _mk = lambda *_a: src
        pre0 = [RT.SNIPPET_PRELUDE]
    else:
        _mk = mk
        pre0 = []
    epos = 0 if cls in STREAMS else None
    n = nt = rej = 0
    for c in steps:
        if c == 0:
            got = obs(lambda: s[1:2:0], cb)
            n += 1
            rej += 1
            if got != ('exc', 'ValueError'):
                acc.violation('slice', vkind(('exc', 'ValueError'), got), dict(cls=cls, data=d, pos=pos, a=1, b=2, c=0),
                              snippet(pre0 + [f"s = {_mk(cls, d, pos)}"], "s[1:2:0]", ('exc', 'ValueError')), 'ValueError', got)
            continue
        for a in rng:
            for b in rng:
                e = d[a:b:c]
                try:
                    r = s[a:b:c]
                    ok = r.bin == e and type(r).__name__ == cls and (epos is None or r._pos == 0)
                    got = None
                except core.Hang:
                    raise
                except Exception as ex:  # noqa: BLE001
                    ok = False
                    got = ('exc', type(ex).__name__)
                n += 1
                if e:
                    nt += 1
                if not ok:
                    if got is None:
                        got = ('ok', cb(r))
                    exp = ('ok', (cls, e, epos))
                    acc.violation('slice', vkind(exp, got), dict(cls=cls, data=d, pos=pos, a=a, b=b, c=c, route=route, group=('neg' if (c or 1) < 0 else 'pos') + (f'|{route}' if route else '')),
                                  snippet(pre0 + [f"s = {_mk(cls, d, pos)}"], f"s[{fmt_slice(a, b, c)}]", exp, conv=CB_SRC), exp, got)
    acc.step('slice', n, nontrivial=nt, ok=n - rej, rej=rej)
    acc.outcome(('slice', L, d[:24], len(rng), len(steps)))
    acc.sample(dict(cls=cls, bits=d[:64], pos=pos, event=f"s[{fmt_slice(rng[-1], rng[1], steps[-1] or None)}]"))


# ------------------------------------------------------------------------------------------
# concatenation

def promotable_forms(bs, d):
    """(label, factory, source) of non-bitstring operands holding the bits d."""
    import bitarray
    forms = [('str', (lambda: ('0b' + d) if d else ''), repr(('0b' + d) if d else '')),
             ('list', lambda: [c == '1' for c in d], repr([c == '1' for c in d])),
             ('tuple_int', lambda: tuple(int(c) for c in d), repr(tuple(int(c) for c in d))),
             ('gen', lambda: (int(c) for c in d), f"(int(c) for c in {d!r})"),
             ('bitarray', lambda: bitarray.bitarray(d), f"__import__('bitarray').bitarray({d!r})")]
    if len(d) % 8 == 0:
        by = int(d, 2).to_bytes(len(d) // 8, 'big') if d else b''
        forms += [('bytes', lambda: by, repr(by)), ('bytearray', lambda: bytearray(by), f"bytearray({by!r})"),
                  ('memoryview', lambda: memoryview(by), f"memoryview({by!r})"),
                  ('array_B', lambda: array.array('B', by), f"__import__('array').array('B', {by!r})"),
                  ('bytesio', lambda: __import__('io').BytesIO(by), f"__import__('io').BytesIO({by!r})"),
                  # a BytesIO whose cursor is not at the start (already read, or filled by write()): its whole content is the operand
                  ('bytesio_read', lambda: (lambda f: (f.read(), f)[1])(__import__('io').BytesIO(by)), f"(lambda f: (f.read(), f)[1])(__import__('io').BytesIO({by!r}))"),
                  ('bytesio_written', lambda: (lambda f: (f.write(by), f)[1])(__import__('io').BytesIO()), f"(lambda f: (f.write({by!r}), f)[1])(__import__('io').BytesIO())"),
                  ('memoryview_strided', lambda: memoryview(RT.interleave(by))[::2], f"memoryview({RT.interleave(by)!r})[::2]")]
    if len(d) % 4 == 0 and d:
        hx = '0x' + format(int(d, 2), f'0{len(d) // 4}x')
        forms.append(('hexstr', lambda: hx, repr(hx)))
    return forms


def check_add(bs, acc, lcls, ld, rcls, rd, lpos=0, rpos=0, lview=None, rview=None):
    """s + t and t.__radd__ route with both operands bitstrings.  lview / rview = (object, source text, route name): the operand is
    built through a view route (window onto a file / buffer, derived object) instead of Cls(bin=...)."""
    s = lview[0] if lview else build(bs, lcls, ld, lpos)
    t = rview[0] if rview else build(bs, rcls, rd, rpos)
    exp = ('ok', (lcls, ld + rd, 0 if lcls in STREAMS else None))
    got = obs(lambda: s + t, cb)
    acc.step('add', 1, nontrivial=int(bool(ld + rd)), ok=1)
    pre = ([RT.SNIPPET_PRELUDE] if (lview or rview) else []) + [f"s = {lview[1] if lview else mk(lcls, ld, lpos)}", f"t = {rview[1] if rview else mk(rcls, rd, rpos)}"]
    if got != exp:
        kind = 'class' if (got[0] == 'ok' and got[1][1] == exp[1][1]) else vkind(exp, got)
        acc.violation('add', kind, dict(lcls=lcls, left=ld, rcls=rcls, right=rd, lpos=lpos, rpos=rpos, lroute=lview[2] if lview else None, rroute=rview[2] if rview else None,
                                        group=('longer-right' if len(rd) > len(ld) else 'other') + (f"|{lview[2] if lview else ''}|{rview[2] if rview else ''}" if (lview or rview) else '')),
                      snippet(pre, "s + t", exp, conv=CB_SRC), exp, got)
    # the result is a new sequence: mutating it must not reach an operand
    if lcls in ('BitArray', 'BitStream'):
        try:
            r = s + t
            r.append('0b1')
            r.invert()
            acc.step('add', 1, nontrivial=1, ok=1)
        except Exception:  # noqa: BLE001 - reported by the value comparison above
            pass
    if s.bin != ld or t.bin != rd or getattr(s, 'pos', 0) != (lpos if lcls in STREAMS else 0) or getattr(t, 'pos', 0) != (rpos if rcls in STREAMS else 0):
        acc.violation('add', 'frame', dict(lcls=lcls, left=ld, rcls=rcls, right=rd),
                      '\n'.join(["import bitstring"] + pre + ["r = s + t", "r.append('0b1') if isinstance(r, bitstring.BitArray) else None", "r.invert() if isinstance(r, bitstring.BitArray) else None", f"assert (s.bin, t.bin) == ({ld!r}, {rd!r}), (s.bin, t.bin)"]),
                      (ld, rd), (s.bin, t.bin))


def check_promo(bs, acc, cls, d, form, od, pos=0):
    """s + x and x + s where x is a promotable non-bitstring holding od."""
    label, fac, src = form
    s = build(bs, cls, d, pos)
    epos = 0 if cls in STREAMS else None
    pre = [f"s = {mk(cls, d, pos)}"]
    exp = ('ok', (cls, d + od, epos))
    got = obs(lambda: s + fac(), cb)
    acc.step('add', 1, nontrivial=1, ok=1)
    if got != exp:
        acc.violation('add', vkind(exp, got), dict(cls=cls, data=d, form=label, other=od, pos=pos),
                      snippet(pre, f"s + {src}", exp, conv=CB_SRC), exp, got)
    exp = ('ok', (cls, od + d, epos))
    got = obs(lambda: fac() + s, cb)
    acc.step('radd', 1, nontrivial=1, ok=1)
    if got != exp:
        acc.violation('radd', vkind(exp, got), dict(cls=cls, data=d, form=label, other=od, pos=pos),
                      snippet(pre, f"{src} + s", exp, conv=CB_SRC), exp, got)
    if cls in ('BitArray', 'BitStream') and label in ('str', 'hexstr'):
        # mutate the result, then the same expression must still give the same bits (string-cache poisoning)
        try:
            r = s + fac()
            r.append('0b1')
            r.invert()
            again = obs(lambda: s + fac(), cb)
            acc.step('add', 1, nontrivial=1, ok=1)
            e2 = ('ok', (cls, d + od, epos))
            if again != e2:
                acc.violation('add', 'value', dict(cls=cls, data=d, form=label, other=od, group='after-mutating-result'),
                              '\n'.join(["import bitstring", f"s = {mk(cls, d, pos)}", f"r = s + {src}", "r.append('0b1'); r.invert()",
                                         f"assert (s + {src}).bin == {d + od!r}"]), e2, again)
        except Exception:  # noqa: BLE001
            pass
    if s.bin != d:
        acc.violation('add', 'frame', dict(cls=cls, data=d, form=label, other=od), "# operand changed\nassert False", d, s.bin)


def run_concat(bs, acc, shard):
    ctx = RT.Ctx()
    try:
        _run_concat(bs, acc, shard, ctx)
    finally:
        ctx.close()


def _run_concat(bs, acc, shard, ctx):
    small = list(families.all_bits(shard['n']))
    for ld in shard['left']:
        for rd in small:
            acc.state(('pair', ld, rd))
            for lcls in CLASSES:
                for rcls in CLASSES:
                    check_add(bs, acc, lcls, ld, rcls, rd)
            # stream operands at non-zero positions must not leak pos into the result
            if ld and rd:
                check_add(bs, acc, 'BitStream', ld, 'ConstBitStream', rd, len(ld), len(rd) // 2)
                check_add(bs, acc, 'ConstBitStream', ld, 'BitStream', rd, len(ld) // 2, len(rd))
            acc.outcome(('add', ld + '|' + rd))
        # operands that are views of a longer source (length-limited file, offset window, BytesIO, derived objects), either side
        if len(ld) <= 5:
            for rd in ['', '1', '01', '0110', ld, ld + '1', '10110010', '1011001000000001']:
                for ri, r in enumerate(VIEW_ROUTES):
                    lcls, rcls = CLASSES[(len(ld) + ri) % 4], CLASSES[(len(rd) + ri + 1) % 4]
                    lo = RT.build(bs, r, lcls, ld, ctx)
                    ro = RT.build(bs, r, rcls, rd, ctx)
                    if lo is not None:
                        check_add(bs, acc, lcls, ld, rcls, rd, lview=(lo, RT.source(r, lcls, ld), r))
                    if ro is not None:
                        check_add(bs, acc, lcls, ld, rcls, rd, rview=(ro, RT.source(r, rcls, rd), r))
                    if lo is not None and ro is not None:
                        lo2 = RT.build(bs, r, lcls, ld, ctx)
                        check_add(bs, acc, lcls, ld, rcls, rd, lview=(lo2, RT.source(r, lcls, ld), r), rview=(ro, RT.source(r, rcls, rd), r))
        # promotable right/left operands (contents chosen over all small values incl. whole bytes)
        for od in ['', '1', '0', '10', '0110', '00000000', '10110010', '1011001000000001']:
            for form in promotable_forms(bs, od):
                for cls in CLASSES:
                    check_promo(bs, acc, cls, ld, form, od, pos=(len(ld) if cls in STREAMS else 0))
        # non-promotable right operand
        for cls in CLASSES:
            s = build(bs, cls, ld)
            got = obs(lambda: s + 3, cb)
            acc.step('add', 1, rej=1)
            if not (got[0] == 'exc' and got[1] == 'TypeError'):
                acc.violation('add', vkind(('exc', 'TypeError'), got), dict(cls=cls, data=ld, other='int 3'),
                              snippet([f"s = {mk(cls, ld)}"], "s + 3", ('exc', 'TypeError')), 'TypeError', got)
    acc.sample(dict(event="Bits(bin=left) + BitArray(bin=right)", left=shard['left'][0], right=small[-1]))


def run_concat_edge(bs, acc, shard):
    shorts = ['', '1', '01', '0110100']
    for L in shard['Ls']:
        for d in families.edge(L, shard['seed'], full=False)[:4]:
            for sd in shorts:
                for i, (lcls, rcls) in enumerate(itertools.product(CLASSES, CLASSES)):
                    check_add(bs, acc, lcls, sd, rcls, d)
                    check_add(bs, acc, lcls, d, rcls, sd)
            check_add(bs, acc, 'Bits', d, 'BitArray', d)
            acc.state(('edgepair', L, d[:32]))
