"""C08 - behaviour depends only on bit content, not on where the bits came from (product explorer, differential).

state  = (class, content, construction route, lsb0)     event = one entry of the API battery (bsmc.api)
oracle = the observation and post-state of the same event on the canonical twin Cls(bin=content) - no hand-written expectation.
"""
from __future__ import annotations

from .. import core, families, routes, api, bfs
from ..util import CLASSES, STREAMS

PROPERTY = 'C08'
VACUITY = dict(min_outcomes=200)
MSB0_BUILD = ('slice', 'stepslice', 'from_mutated')


def describe(tier):
    q = tier == 'quick'
    return dict(bounds=dict(contents='all contents of length <= %d; boundary patterns of %s bits' % (5 if q else 8, '8,15,16,17,24,33,64,65,2001' if q else '8..129, 255..1025, 2000, 2001, 3601'),
                            routes=list(routes.ROUTES), classes=list(CLASSES), lsb0=[False, True],
                            battery='%d pure + %d stream + %d mutating events (bsmc/api.py), arguments include out-of-range values' % (len(api.PURE), len(api.STREAM), len(api.MUT))),
                rule='every (class, content, route, mode, event) combination executed once on a fresh object and compared with the twin; non-trivial = '
                     'the twin returns a value (not an exception); the construction route differs from the twin\'s by construction',
                assumptions=['the canonical twin Cls(bin=...) is the reference: a defect common to all routes is invisible here (other checks judge values)',
                             'repr() is excluded (it legitimately shows the file name for file-backed objects; C19)'])


def shards(tier, seed):
    q = tier == 'quick'
    conts = list(families.all_bits(5 if q else 8))
    Ls = (8, 15, 16, 17, 24, 33, 64, 65, 2001) if q else (8, 15, 16, 17, 24, 31, 32, 33, 63, 64, 65, 127, 128, 129, 255, 256, 257, 1023, 1024, 1025, 2000, 2001, 3601)
    for L in Ls:
        conts += families.edge(L, seed, full=False)[2:((3 if L >= 2000 else 5) if q else 7)]
    out = []
    for lsb0 in (False, True):
        for part in families.chunk(conts, 24 if q else 48):
            out.append(dict(conts=part, lsb0=lsb0))
    return out


def canon(v):
    bs = core.import_bitstring()
    if isinstance(v, bs.Bits):
        return ('bits', type(v).__name__, v.bin, getattr(v, 'pos', None))
    if isinstance(v, float):
        return ('f', 'nan' if v != v else v.hex())
    if isinstance(v, (list, tuple)):
        return (type(v).__name__,) + tuple(canon(x) for x in v)
    if isinstance(v, (bytes, bytearray)):
        return ('bytes', bytes(v).hex())
    if isinstance(v, (int, str, bool)) or v is None:
        return v
    return ('obj', type(v).__name__)


def state_of(s):
    return (s.bin, getattr(s, 'pos', None), len(s))


def run_events(ns_base, mk, events):
    """Run the battery on objects produced by mk(); returns {name: (obs, post_state)}."""
    out = {}
    pure = [e for e in events if e[2] == 'pure']
    if pure:
        s = mk()
        ns = dict(ns_base, s=s)
        for name, src, _ in pure:
            r = bfs.run_src(ns, src)
            out[name] = (r[0], canon(r[1]) if r[0] == 'ok' else r[1])
        out['__after_pure__'] = ('ok', state_of(ns['s']))
    for name, src, kind in events:
        if kind == 'pure':
            continue
        s = mk()
        ns = dict(ns_base, s=s)
        r = bfs.run_src(ns, src)
        out[name] = (r[0], canon(r[1]) if r[0] == 'ok' else r[1], state_of(ns['s']))
    return out


def run_shard(shard, acc):
    bs = core.import_bitstring()
    ctx = routes.Ctx()
    ns_base = api.namespace(bs)
    lsb0 = shard['lsb0']
    try:
        with core.watchdog(1500):
            for c in shard['conts']:
                for cls in CLASSES:
                    core.set_options(lsb0=lsb0)
                    events = api.battery(cls, len(c))
                    klass = getattr(bs, cls)
                    twin = run_events(ns_base, lambda: klass(bin=c), events)
                    nt = sum(1 for k, v in twin.items() if v[0] == 'ok')
                    for k, v in twin.items():
                        acc.outcome((k, v[0], v[1] if len(repr(v[1])) < 60 else hash(repr(v[1]))))
                    for r in routes.ROUTES:
                        if r == 'bin':
                            continue
                        try:
                            core.set_options(lsb0=lsb0 and r not in MSB0_BUILD)
                            probe = routes.build(bs, r, cls, c, ctx)
                            core.set_options(lsb0=lsb0)
                        except Exception as e:  # noqa: BLE001
                            acc.violation('construct', 'exc', dict(cls=cls, bits=c, route=r, lsb0=lsb0, group=r),
                                          '\n'.join([routes.SNIPPET_PRELUDE, f"bitstring.options.lsb0 = {lsb0}", f"s = {routes.source(r, cls, c)}"]), 'object', type(e).__name__)
                            continue
                        if probe is None:
                            continue
                        acc.state((cls, c, r, lsb0))
                        if r in MSB0_BUILD and lsb0:
                            # these routes index with [] while building; their recipe is written in msb0 coordinates
                            def mk(r=r):
                                core.set_options(lsb0=False)
                                try:
                                    return routes.build(bs, r, cls, c, ctx)
                                finally:
                                    core.set_options(lsb0=True)
                        else:
                            def mk(r=r):
                                return routes.build(bs, r, cls, c, ctx)
                        got = run_events(ns_base, mk, events)
                        acc.step('battery', len(events), nontrivial=nt, ok=nt, rej=len(events) - nt)
                        for name, src, kind in events:
                            if got[name] != twin[name]:
                                acc.violation(name, 'value' if got[name][0] == twin[name][0] == 'ok' else 'exc',
                                              dict(cls=cls, bits=c if len(c) < 70 else f'{len(c)} bits', route=r, lsb0=lsb0, event=src,
                                                   group=('file' if r.startswith('file') else r)),
                                              snip(cls, c, r, lsb0, src), twin[name], got[name])
                        if got.get('__after_pure__') != twin.get('__after_pure__'):
                            acc.violation('pure-battery', 'frame', dict(cls=cls, bits=c if len(c) < 70 else f'{len(c)} bits', route=r, lsb0=lsb0, group=r),
                                          snip(cls, c, r, lsb0, "(s.bin, len(s))"), twin.get('__after_pure__'), got.get('__after_pure__'))
                acc.sample(dict(content=c[:64], lsb0=lsb0, routes=len(routes.ROUTES), event="every battery event on Cls(route) vs Cls(bin=...)"))
    finally:
        core.set_options()
        ctx.close()


def snip(cls, c, r, lsb0, src):
    is_expr = bfs._code.get(src, (None, True))[1]
    run = ["def run(s):", "    try:", f"        r = {src}" if is_expr else f"        {src}; r = None", "    except Exception as e:", "        r = ('exc', type(e).__name__)",
           "    return CANON(r), s.bin, getattr(s, 'pos', None), len(s)"]
    return '\n'.join([routes.SNIPPET_PRELUDE, api.HELPERS_SRC, CANON_SRC, f"bitstring.options.lsb0 = {lsb0}"] + run +
                     [f"a = run(bitstring.{cls}(bin={c!r}))"] + (["bitstring.options.lsb0 = False", f"x = {routes.source(r, cls, c)}", f"bitstring.options.lsb0 = {lsb0}", "b = run(x)"]
                      if r in MSB0_BUILD else [f"b = run({routes.source(r, cls, c)})"]) + ["assert a == b, (a, b)"])


CANON_SRC = '''def CANON(v):
    if isinstance(v, bitstring.Bits): return ('bits', type(v).__name__, v.bin, getattr(v, 'pos', None))
    if isinstance(v, float): return 'nan' if v != v else v.hex()
    if isinstance(v, (list, tuple)): return tuple(CANON(x) for x in v)
    return v'''
