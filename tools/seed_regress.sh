#!/bin/bash
# usage: tools/seed_regress.sh [pattern]   - re-run the primary quick check of every kept seed against a scratch worktree of /repo HEAD
# with the seed applied (BSMC_REPO; /repo and the committed evidence are not touched). A seed whose patch no longer applies to HEAD
# (a later repair touched the same lines) is reported as SKIP. Expected: every applicable seed gives exit=1.
pat=${1:-}
cd "$(dirname "$0")/.."
wt=/tmp/regresswt-$$
git -C /repo worktree add -q --detach $wt HEAD || exit 2
trap 'git -C /repo worktree remove --force $wt >/dev/null 2>&1; rm -rf /tmp/regress-ev-$$' EXIT
ok=0; miss=0; skip=0
for d in seeded/*${pat}*/; do
  name=$(basename $d); prop=$(echo $name | cut -c1-3)
  [ -f $d/patch.diff ] || continue
  git -C $wt checkout -q -- .
  if ! git -C $wt apply --check $PWD/$d/patch.diff 2>/dev/null; then echo "SKIP $name (patch no longer applies to HEAD)"; skip=$((skip+1)); continue; fi
  git -C $wt apply $PWD/$d/patch.diff
  # the check credited with the seed: the last check_runs entry that has exit=1
  props=$(python3 -c "
import json,sys
m=json.load(open('$d/meta.json'))
hit=[r.split(':')[0] for run in m.get('check_runs',[]) for r in run.split() if ':exit=1:' in r]
own=[p for p in hit if p=='$prop']
print(own[0] if own else (hit[-1] if hit else '$prop'))")
  out=$(BSMC_REPO=$wt BSMC_EVIDENCE_DIR=/tmp/regress-ev-$$ ./check $props quick 2>&1); rc=$?
  if [ $rc -eq 1 ]; then ok=$((ok+1)); echo "CAUGHT $name by $props"; else miss=$((miss+1)); echo "MISSED $name by $props exit=$rc"; echo "$out" | tail -2; fi
done
echo "seed regression: caught=$ok missed=$miss skipped=$skip"
